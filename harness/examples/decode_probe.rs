//! Self-test of the fuzz decoding path (`engine::from_bytes`): no generator that is decoded from
//! fuzzer bytes may fork proptest's pass-through RNG (each fork halves the readable window; an empty
//! window makes rand's rejection sampling spin). Prints, per generator, the largest number of bytes
//! read over 3000 buffers and fails if any window shrank.  cargo run --release --example decode_probe
use proptest::prelude::*;
use proptest::strategy::ValueTree;
use proptest::test_runner::{Config, RngAlgorithm, TestRng, TestRunner};
fn win(r: &mut TestRunner) -> String { let s = format!("{:?}", r.rng()); s[..s.find("data").unwrap_or(40)].to_string() }
fn probe<S: Strategy>(name: &str, s: S) {
    let mut worst = String::new(); let mut wend = usize::MAX; let mut maxoff = 0;
    for k in 0..3000u32 {
    let buf: Vec<u8> = (0..65536u32).map(|i| ((i ^ k.wrapping_mul(0x9E3779B9)).wrapping_mul(2654435761) >> 13) as u8).collect();
    let rng = TestRng::from_seed(RngAlgorithm::PassThrough, &buf);
    let mut runner = TestRunner::new_with_rng(Config { failure_persistence: None, ..Config::default() }, rng);
    verif::engine::with_decoding(|| { let _ = s.new_tree(&mut runner).map(|t| t.current()); });
    let w = win(&mut runner);
    let end: usize = w.split("end: ").nth(1).unwrap().split(',').next().unwrap().parse().unwrap();
    let off: usize = w.split("off: ").nth(1).unwrap().split(',').next().unwrap().parse().unwrap();
    maxoff = maxoff.max(off);
    if end < wend { wend = end; worst = w; }
    }
    eprintln!("{name}: max bytes read {maxoff}; smallest window end {wend}");
    let _ = worst;
    if wend != 65536 && !name.starts_with("any f64") && name != "filter" {
        eprintln!("FORKS: {name}");
        std::process::exit(1);
    }
}
fn main() {
    probe("select", proptest::sample::select(vec![1,2,3]));
    probe("regex PC", "\\PC{0,20}");
    probe("regex class", "[ -~\\n\\t]{0,24}");
    probe("regex az", "[a-z0-9]{1,6}");
    probe("any char", any::<char>());
    probe("any f64", any::<f64>());
    probe("any i64", any::<i64>());
    probe("any bool", any::<bool>());
    probe("any u8 vec", proptest::collection::vec(any::<u8>(), 0..200));
    probe("bool weighted", proptest::bool::weighted(0.3));
    probe("filter", any::<f64>().prop_filter("finite", |f| f.is_finite()));
    probe("c08 random_text", verif::props::c08::random_text());
    probe("c09 tree", verif::props::c09::tree_strategy());
    probe("c13 tree", verif::props::c13::json_tree());
    probe("c20 mapping", verif::props::c20::mapping());
    probe("c13 full", (verif::props::c13::json_tree(), 0usize..5, proptest::collection::vec(any::<u8>(), 0..200)));
    probe("c09 full", (verif::props::c09::tree_strategy(), any::<bool>(), any::<bool>()));
    probe("c15 full", proptest::collection::vec(verif::props::c15::part_strategy(), 2..5));
    probe("c16 full", (proptest::collection::vec(verif::props::c16::doc_spec(), 1..4), any::<bool>()));
    probe("c20 full", (verif::props::c20::mapping(), proptest::collection::vec("[a-c1~ ]{0,3}", 0..3)));
    probe("c04", verif::props::c04::program_strategy());
    probe("c05", verif::props::c05::case_strategy());
    probe("c15", verif::props::c15::part_strategy());
    probe("c16", verif::props::c16::doc_spec());
}
