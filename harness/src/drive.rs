//! Driving the real parser: owned event records, back-ends, pull / push / peek drivers.

use crate::engine::WorkBoundExceeded;
use saphyr_parser::{
    BufferedInput, Event, Input, Parser, ScalarStyle, ScanError, Span, SpannedEventReceiver, StrInput,
};
use std::cell::Cell;
use std::collections::VecDeque;
use std::rc::Rc;

pub type TagT = Option<(String, String)>;

#[derive(Clone, PartialEq, Eq, Debug, Hash)]
pub enum Ev {
    Nothing,
    StreamStart,
    StreamEnd,
    DocStart(bool),
    DocEnd,
    Alias(usize),
    Scalar { v: String, style: ScalarStyle, aid: usize, tag: TagT },
    SeqStart(usize, TagT),
    SeqEnd,
    MapStart(usize, TagT),
    MapEnd,
}

impl Ev {
    pub fn from_event(e: &Event<'_>) -> Ev {
        let t = |t: &Option<saphyr_parser::Tag>| t.as_ref().map(|t| (t.handle.clone(), t.suffix.clone()));
        match e {
            Event::Nothing => Ev::Nothing,
            Event::StreamStart => Ev::StreamStart,
            Event::StreamEnd => Ev::StreamEnd,
            Event::DocumentStart(b) => Ev::DocStart(*b),
            Event::DocumentEnd => Ev::DocEnd,
            Event::Alias(i) => Ev::Alias(*i),
            Event::Scalar(v, s, a, tag) => Ev::Scalar { v: v.to_string(), style: *s, aid: *a, tag: t(tag) },
            Event::SequenceStart(a, tag) => Ev::SeqStart(*a, t(tag)),
            Event::SequenceEnd => Ev::SeqEnd,
            Event::MappingStart(a, tag) => Ev::MapStart(*a, t(tag)),
            Event::MappingEnd => Ev::MapEnd,
        }
    }
    pub fn is_collection_or_alias(&self) -> bool {
        matches!(self, Ev::Alias(_) | Ev::SeqStart(..) | Ev::MapStart(..))
    }
    pub fn short(&self) -> String {
        let tg = |t: &TagT| t.as_ref().map(|(h, s)| format!(" <{h}{s}>")).unwrap_or_default();
        let an = |a: &usize| if *a > 0 { format!(" &{a}") } else { String::new() };
        match self {
            Ev::Nothing => "NOTHING".into(),
            Ev::StreamStart => "+STR".into(),
            Ev::StreamEnd => "-STR".into(),
            Ev::DocStart(b) => if *b { "+DOC ---".into() } else { "+DOC".into() },
            Ev::DocEnd => "-DOC".into(),
            Ev::Alias(i) => format!("=ALI *{i}"),
            Ev::Scalar { v, style, aid, tag } => {
                let k = match style {
                    ScalarStyle::Plain => ":",
                    ScalarStyle::SingleQuoted => "'",
                    ScalarStyle::DoubleQuoted => "\"",
                    ScalarStyle::Literal => "|",
                    ScalarStyle::Folded => ">",
                };
                format!("=VAL{}{} {k}{}", an(aid), tg(tag), v.escape_debug())
            }
            Ev::SeqStart(a, t) => format!("+SEQ{}{}", an(a), tg(t)),
            Ev::SeqEnd => "-SEQ".into(),
            Ev::MapStart(a, t) => format!("+MAP{}{}", an(a), tg(t)),
            Ev::MapEnd => "-MAP".into(),
        }
    }
}

#[derive(Clone, Copy, PartialEq, Eq, Debug, Hash, Default)]
pub struct Mk {
    pub index: usize,
    pub line: usize,
    pub col: usize,
}

#[derive(Clone, Copy, PartialEq, Eq, Debug, Hash, Default)]
pub struct Sp {
    pub start: Mk,
    pub end: Mk,
}

impl Sp {
    pub fn from_span(s: &Span) -> Sp {
        Sp {
            start: Mk { index: s.start.index(), line: s.start.line(), col: s.start.col() },
            end: Mk { index: s.end.index(), line: s.end.line(), col: s.end.col() },
        }
    }
}

#[derive(Clone, PartialEq, Eq, Debug, Hash)]
pub struct PErr {
    pub info: String,
    pub mark: Mk,
    pub display: String,
}

impl PErr {
    pub fn from_err(e: &ScanError) -> PErr {
        let m = e.marker();
        PErr { info: e.info().to_string(), mark: Mk { index: m.index(), line: m.line(), col: m.col() }, display: e.to_string() }
    }
}

#[derive(Clone, PartialEq, Eq, Debug, Default)]
pub struct Outcome {
    pub events: Vec<(Ev, Sp)>,
    pub error: Option<PErr>,
    /// after StreamEnd was returned, did a further `next()` return `None`?
    pub none_after_end: Option<bool>,
    /// the driver gave up because more events than the bound were delivered
    pub event_bound_hit: bool,
}

impl Outcome {
    pub fn evs(&self) -> Vec<Ev> {
        self.events.iter().map(|(e, _)| e.clone()).collect()
    }
    pub fn ok(&self) -> bool {
        self.error.is_none() && !self.event_bound_hit
    }
    pub fn dump(&self) -> String {
        let mut s: Vec<String> = self.events.iter().map(|(e, _)| e.short()).collect();
        if let Some(e) = &self.error {
            s.push(format!("ERR({})", e.display));
        }
        s.join(" ")
    }
}

// ------------------------------------------------------------------------------------------------
// Back-ends
// ------------------------------------------------------------------------------------------------

/// A contract-conforming `Input` with a configurable buffer capacity. It replicates the documented
/// behaviour of `BufferedInput`: `lookahead(count)` fills exactly to `count` (padding with `\0`),
/// `raw_read_non_breakz_ch` pushes a read-past break back into the buffer, indexing outside the
/// loaded buffer panics (as `BufferedInput`'s `ArrayDeque` indexing does).
pub struct TestInput<I: Iterator<Item = char>> {
    input: I,
    buffer: VecDeque<char>,
    cap: usize,
}

impl<I: Iterator<Item = char>> TestInput<I> {
    pub fn new(input: I, cap: usize) -> Self {
        TestInput { input, buffer: VecDeque::new(), cap }
    }
}

impl<I: Iterator<Item = char>> Input for TestInput<I> {
    fn lookahead(&mut self, count: usize) {
        if self.buffer.len() >= count {
            return;
        }
        assert!(count <= self.cap, "TestInput: lookahead({count}) exceeds bufmaxlen {}", self.cap);
        for _ in 0..(count - self.buffer.len()) {
            self.buffer.push_back(self.input.next().unwrap_or('\0'));
        }
    }
    fn buflen(&self) -> usize {
        self.buffer.len()
    }
    fn bufmaxlen(&self) -> usize {
        self.cap
    }
    fn raw_read_ch(&mut self) -> char {
        self.input.next().unwrap_or('\0')
    }
    fn raw_read_non_breakz_ch(&mut self) -> Option<char> {
        if let Some(c) = self.input.next() {
            if c == '\n' || c == '\r' || c == '\0' {
                assert!(self.buffer.len() < self.cap, "TestInput: push-back overflows the buffer");
                self.buffer.push_back(c);
                None
            } else {
                Some(c)
            }
        } else {
            None
        }
    }
    fn skip(&mut self) {
        self.buffer.pop_front();
    }
    fn skip_n(&mut self, count: usize) {
        assert!(count <= self.buffer.len(), "TestInput: skip_n({count}) beyond the loaded buffer");
        self.buffer.drain(0..count);
    }
    fn peek(&self) -> char {
        *self.buffer.front().expect("TestInput: peek on an empty buffer (missing lookahead)")
    }
    fn peek_nth(&self, n: usize) -> char {
        *self.buffer.get(n).expect("TestInput: peek_nth outside the loaded buffer (missing lookahead)")
    }
}

/// Counts every `Input` call and unwinds with `WorkBoundExceeded` beyond `limit`.
/// Forwards *all* trait methods so the wrapped input's overrides stay in force.
pub struct Counting<I: Input> {
    inner: I,
    calls: Rc<Cell<u64>>,
    limit: u64,
}

impl<I: Input> Counting<I> {
    pub fn new(inner: I, calls: Rc<Cell<u64>>, limit: u64) -> Self {
        Counting { inner, calls, limit }
    }
    #[inline]
    fn tick(&self) {
        let c = self.calls.get() + 1;
        self.calls.set(c);
        if c > self.limit {
            std::panic::panic_any(WorkBoundExceeded(c));
        }
    }
}

macro_rules! fwd {
    ($name:ident(&self $(, $a:ident : $t:ty)*) -> $r:ty) => {
        #[inline]
        fn $name(&self $(, $a: $t)*) -> $r { self.tick(); self.inner.$name($($a),*) }
    };
    ($name:ident(&mut self $(, $a:ident : $t:ty)*) -> $r:ty) => {
        #[inline]
        fn $name(&mut self $(, $a: $t)*) -> $r { self.tick(); self.inner.$name($($a),*) }
    };
}

impl<I: Input> Input for Counting<I> {
    fwd!(lookahead(&mut self, count: usize) -> ());
    #[inline]
    fn buflen(&self) -> usize {
        self.inner.buflen()
    }
    #[inline]
    fn bufmaxlen(&self) -> usize {
        self.inner.bufmaxlen()
    }
    #[inline]
    fn buf_is_empty(&self) -> bool {
        self.inner.buf_is_empty()
    }
    fwd!(raw_read_ch(&mut self) -> char);
    fwd!(raw_read_non_breakz_ch(&mut self) -> Option<char>);
    fwd!(skip(&mut self) -> ());
    fwd!(skip_n(&mut self, count: usize) -> ());
    fwd!(peek(&self) -> char);
    fwd!(peek_nth(&self, n: usize) -> char);
    fwd!(look_ch(&mut self) -> char);
    fwd!(next_char_is(&self, c: char) -> bool);
    fwd!(nth_char_is(&self, n: usize, c: char) -> bool);
    fwd!(next_2_are(&self, c1: char, c2: char) -> bool);
    fwd!(next_3_are(&self, c1: char, c2: char, c3: char) -> bool);
    fwd!(next_is_document_indicator(&self) -> bool);
    fwd!(next_is_document_start(&self) -> bool);
    fwd!(next_is_document_end(&self) -> bool);
    fn skip_ws_to_eol(
        &mut self,
        skip_tabs: saphyr_parser::input::SkipTabs,
    ) -> (usize, Result<saphyr_parser::input::SkipTabs, &'static str>) {
        self.tick();
        let r = self.inner.skip_ws_to_eol(skip_tabs);
        // bulk operations are charged by the characters they consumed
        self.calls.set(self.calls.get() + r.0 as u64);
        r
    }
    fwd!(next_can_be_plain_scalar(&self, in_flow: bool) -> bool);
    fwd!(next_is_blank_or_break(&self) -> bool);
    fwd!(next_is_blank_or_breakz(&self) -> bool);
    fwd!(next_is_blank(&self) -> bool);
    fwd!(next_is_break(&self) -> bool);
    fwd!(next_is_breakz(&self) -> bool);
    fwd!(next_is_z(&self) -> bool);
    fwd!(next_is_flow(&self) -> bool);
    fwd!(next_is_digit(&self) -> bool);
    fwd!(next_is_alpha(&self) -> bool);
    fn skip_while_non_breakz(&mut self) -> usize {
        self.tick();
        let r = self.inner.skip_while_non_breakz();
        self.calls.set(self.calls.get() + r as u64);
        r
    }
    fn skip_while_blank(&mut self) -> usize {
        self.tick();
        let r = self.inner.skip_while_blank();
        self.calls.set(self.calls.get() + r as u64);
        r
    }
    fn fetch_while_is_alpha(&mut self, out: &mut String) -> usize {
        self.tick();
        let r = self.inner.fetch_while_is_alpha(out);
        self.calls.set(self.calls.get() + r as u64);
        r
    }
}

#[derive(Clone, Copy, PartialEq, Eq, Debug, Hash)]
pub enum Backend {
    Str,
    Buffered,
    Test(usize),
}

impl Backend {
    pub fn name(self) -> String {
        match self {
            Backend::Str => "str".into(),
            Backend::Buffered => "buffered".into(),
            Backend::Test(c) => format!("test{c}"),
        }
    }
    pub fn parse(s: &str) -> Backend {
        match s {
            "str" => Backend::Str,
            "buffered" => Backend::Buffered,
            _ => Backend::Test(s.trim_start_matches("test").parse().unwrap_or(16)),
        }
    }
    pub const ALL6: [Backend; 6] =
        [Backend::Str, Backend::Buffered, Backend::Test(8), Backend::Test(16), Backend::Test(64), Backend::Test(128)];
}

/// Call `$body` with `$p` bound to a fresh `Parser` over `$input` using `$backend`.
#[macro_export]
macro_rules! with_parser {
    ($backend:expr, $input:expr, |$p:ident| $body:expr) => {
        match $backend {
            $crate::drive::Backend::Str => {
                let mut $p = saphyr_parser::Parser::new_from_str($input);
                $body
            }
            $crate::drive::Backend::Buffered => {
                let mut $p = saphyr_parser::Parser::new_from_iter($input.chars());
                $body
            }
            $crate::drive::Backend::Test(cap) => {
                let mut $p = saphyr_parser::Parser::new($crate::drive::TestInput::new($input.chars(), cap));
                $body
            }
        }
    };
}

/// Same, with every back-end wrapped in the counting input.
#[macro_export]
macro_rules! with_counting_parser {
    ($backend:expr, $input:expr, $calls:expr, $limit:expr, |$p:ident| $body:expr) => {
        match $backend {
            $crate::drive::Backend::Str => {
                let mut $p = saphyr_parser::Parser::new($crate::drive::Counting::new(
                    saphyr_parser::StrInput::new($input),
                    $calls.clone(),
                    $limit,
                ));
                $body
            }
            $crate::drive::Backend::Buffered => {
                let mut $p = saphyr_parser::Parser::new($crate::drive::Counting::new(
                    saphyr_parser::BufferedInput::new($input.chars()),
                    $calls.clone(),
                    $limit,
                ));
                $body
            }
            $crate::drive::Backend::Test(cap) => {
                let mut $p = saphyr_parser::Parser::new($crate::drive::Counting::new(
                    $crate::drive::TestInput::new($input.chars(), cap),
                    $calls.clone(),
                    $limit,
                ));
                $body
            }
        }
    };
}

// keep the imports used
#[allow(dead_code)]
fn _types(_: Option<StrInput<'_>>, _: Option<BufferedInput<std::str::Chars<'_>>>) {}

// ------------------------------------------------------------------------------------------------
// Drivers
// ------------------------------------------------------------------------------------------------

pub fn event_bound(chars: usize) -> usize {
    8 * (chars + 1) + 8
}

/// Pull events until `None`, the first error (the iterator is not fused: a consumer stops there),
/// or the event bound.
pub fn pull_all<T: Input>(p: &mut Parser<'_, T>, max_events: usize) -> Outcome {
    let mut out = Outcome::default();
    loop {
        match p.next() {
            None => break,
            Some(Ok((ev, span))) => {
                let e = Ev::from_event(&ev);
                let end = e == Ev::StreamEnd;
                out.events.push((e, Sp::from_span(&span)));
                if end {
                    out.none_after_end = Some(p.next().is_none());
                    break;
                }
                if out.events.len() > max_events {
                    out.event_bound_hit = true;
                    break;
                }
            }
            Some(Err(e)) => {
                out.error = Some(PErr::from_err(&e));
                break;
            }
        }
    }
    out
}

pub struct Collect {
    pub events: Vec<(Ev, Sp)>,
    pub max: usize,
}

impl<'i> SpannedEventReceiver<'i> for Collect {
    fn on_event(&mut self, ev: Event<'i>, span: Span) {
        if self.events.len() <= self.max {
            self.events.push((Ev::from_event(&ev), Sp::from_span(&span)));
        }
    }
}

/// Push interface, all documents in one call.
pub fn push_all<T: Input>(p: &mut Parser<'_, T>, max_events: usize) -> Outcome {
    let mut recv = Collect { events: vec![], max: max_events };
    let r = p.load(&mut recv, true);
    let hit = recv.events.len() > max_events;
    Outcome { events: recv.events, error: r.err().map(|e| PErr::from_err(&e)), none_after_end: None, event_bound_hit: hit }
}

/// Push interface, one document per call, until StreamEnd was delivered or an error occurred.
pub fn push_per_doc<T: Input>(p: &mut Parser<'_, T>, max_events: usize) -> (Outcome, usize) {
    let mut recv = Collect { events: vec![], max: max_events };
    let mut calls = 0usize;
    let mut error = None;
    loop {
        calls += 1;
        let before = recv.events.len();
        match p.load(&mut recv, false) {
            Err(e) => {
                error = Some(PErr::from_err(&e));
                break;
            }
            Ok(()) => {}
        }
        if recv.events.last().map(|(e, _)| e == &Ev::StreamEnd).unwrap_or(false) {
            break;
        }
        if recv.events.len() == before || recv.events.len() > max_events || calls > max_events {
            // no progress: treated by the caller as a mismatch (the stream never ends)
            break;
        }
    }
    let hit = recv.events.len() > max_events;
    (Outcome { events: recv.events, error, none_after_end: None, event_bound_hit: hit }, calls)
}

pub fn parse_str(input: &str) -> Outcome {
    let mut p = Parser::new_from_str(input);
    pull_all(&mut p, event_bound(input.chars().count()))
}

pub fn parse_with(backend: Backend, input: &str) -> Outcome {
    let max = event_bound(input.chars().count());
    with_parser!(backend, input, |p| pull_all(&mut p, max))
}

pub fn push_with(backend: Backend, input: &str) -> Outcome {
    let max = event_bound(input.chars().count());
    with_parser!(backend, input, |p| push_all(&mut p, max))
}
