//! G-model / R1 — abstract YAML document model, a renderer written from the YAML 1.2.2
//! productions (DESIGN Appendix A) and the expected event stream, which is a function of the tree
//! alone. The renderer never consults saphyr.

use crate::drive::Ev;
use saphyr_parser::ScalarStyle;

// ------------------------------------------------------------------------------------------------
// Choice stream
// ------------------------------------------------------------------------------------------------

/// Decisions come from a byte stream; 0 always selects the simplest alternative, indices are
/// mapped monotonically (never `%`) so that shrinking the bytes simplifies the case.
pub struct Choices<'a> {
    bytes: &'a [u8],
    pos: usize,
}

impl<'a> Choices<'a> {
    pub fn new(bytes: &'a [u8]) -> Self {
        Choices { bytes, pos: 0 }
    }
    pub fn byte(&mut self) -> u8 {
        let b = self.bytes.get(self.pos).copied().unwrap_or(0);
        self.pos += 1;
        b
    }
    pub fn pick(&mut self, n: usize) -> usize {
        if n <= 1 {
            return 0;
        }
        (self.byte() as usize * n) >> 8
    }
    pub fn used(&self) -> usize {
        self.pos
    }
}

// ------------------------------------------------------------------------------------------------
// Tree
// ------------------------------------------------------------------------------------------------

#[derive(Clone, Copy, Debug, PartialEq, Eq, Hash)]
pub enum Style {
    Plain,
    Single,
    Double,
    Literal,
    Folded,
}

impl Style {
    pub fn scalar_style(self) -> ScalarStyle {
        match self {
            Style::Plain => ScalarStyle::Plain,
            Style::Single => ScalarStyle::SingleQuoted,
            Style::Double => ScalarStyle::DoubleQuoted,
            Style::Literal => ScalarStyle::Literal,
            Style::Folded => ScalarStyle::Folded,
        }
    }
    pub fn is_block(self) -> bool {
        matches!(self, Style::Literal | Style::Folded)
    }
}

#[derive(Clone, Debug, PartialEq, Eq, Hash)]
pub enum TagSpec {
    /// `!` (non-specific)
    NonSpecific,
    /// `!name`
    Local(String),
    /// `!!name`
    Secondary(String),
    /// `!h!name` — needs a %TAG directive for `!h!` in the document
    Named(String, String),
    /// `!<uri>`
    Verbatim(String),
}

#[derive(Clone, Debug, PartialEq, Eq, Hash)]
pub enum Kind {
    /// for flow styles `text` is one or two lines of simple text (`lines.len()` 1 or 2);
    /// for block styles `lines` are the content lines and `chomp`/`trail` the tail
    Scalar { style: Style, lines: Vec<String>, chomp: u8, trail: u8 },
    Alias(String),
    Seq { flow: bool, items: Vec<Node> },
    Map { flow: bool, pairs: Vec<(Node, Node)> },
    Omitted,
}

#[derive(Clone, Debug, PartialEq, Eq, Hash)]
pub struct Node {
    pub anchor: Option<String>,
    pub tag: Option<TagSpec>,
    pub kind: Kind,
}

impl Node {
    pub fn plain(t: &str) -> Node {
        Node { anchor: None, tag: None, kind: Kind::Scalar { style: Style::Plain, lines: vec![t.to_string()], chomp: 0, trail: 0 } }
    }
    pub fn has_props(&self) -> bool {
        self.anchor.is_some() || self.tag.is_some()
    }
    pub fn is_block_collection(&self) -> bool {
        matches!(&self.kind, Kind::Seq { flow: false, .. } | Kind::Map { flow: false, .. })
    }
    pub fn is_block_scalar(&self) -> bool {
        matches!(&self.kind, Kind::Scalar { style, .. } if style.is_block())
    }
    fn multi_line_flow_scalar(&self) -> bool {
        matches!(&self.kind, Kind::Scalar { style, lines, .. } if !style.is_block() && lines.len() > 1)
    }
    /// can this node be written on one line inside a flow collection / as an implicit key?
    pub fn flow_capable(&self) -> bool {
        match &self.kind {
            Kind::Scalar { style, .. } => !style.is_block(),
            Kind::Alias(_) | Kind::Omitted => true,
            Kind::Seq { flow, items } => *flow && items.iter().all(|n| n.flow_capable()),
            Kind::Map { flow, pairs } => *flow && pairs.iter().all(|(k, v)| k.flow_capable() && v.flow_capable()),
        }
    }
    fn single_line_capable(&self) -> bool {
        match &self.kind {
            Kind::Scalar { style, lines, .. } => !style.is_block() && lines.len() == 1,
            Kind::Alias(_) | Kind::Omitted => true,
            Kind::Seq { flow, items } => *flow && items.iter().all(|n| n.single_line_capable()),
            Kind::Map { flow, pairs } => *flow && pairs.iter().all(|(k, v)| k.single_line_capable() && v.single_line_capable()),
        }
    }
    pub fn depth(&self) -> usize {
        match &self.kind {
            Kind::Seq { items, .. } => 1 + items.iter().map(|n| n.depth()).max().unwrap_or(0),
            Kind::Map { pairs, .. } => 1 + pairs.iter().map(|(k, v)| k.depth().max(v.depth())).max().unwrap_or(0),
            _ => 0,
        }
    }
    pub fn count(&self) -> usize {
        match &self.kind {
            Kind::Seq { items, .. } => 1 + items.iter().map(|n| n.count()).sum::<usize>(),
            Kind::Map { pairs, .. } => 1 + pairs.iter().map(|(k, v)| k.count() + v.count()).sum::<usize>(),
            _ => 1,
        }
    }
    pub fn any(&self, f: &dyn Fn(&Node) -> bool) -> bool {
        if f(self) {
            return true;
        }
        match &self.kind {
            Kind::Seq { items, .. } => items.iter().any(|n| n.any(f)),
            Kind::Map { pairs, .. } => pairs.iter().any(|(k, v)| k.any(f) || v.any(f)),
            _ => false,
        }
    }
}

#[derive(Clone, Debug, PartialEq, Eq, Hash)]
pub enum Directive {
    Yaml,
    Tag(String, String),
    Reserved,
}

#[derive(Clone, Debug, PartialEq, Eq, Hash)]
pub struct Doc {
    pub directives: Vec<Directive>,
    pub explicit_start: bool,
    pub explicit_end: bool,
    pub root: Node,
}

#[derive(Clone, Debug, PartialEq, Eq, Hash)]
pub struct Stream {
    pub docs: Vec<Doc>,
}

// ------------------------------------------------------------------------------------------------
// Scalar values (simple mode)
// ------------------------------------------------------------------------------------------------

/// value of a simple-mode scalar
pub fn scalar_value(style: Style, lines: &[String], chomp: u8, trail: u8) -> String {
    match style {
        Style::Plain | Style::Single | Style::Double => lines.join(" "),
        Style::Literal | Style::Folded => {
            let mut v = if style == Style::Literal { lines.join("\n") } else { lines.join(" ") };
            match chomp {
                1 => {}            // strip
                2 => {
                    // keep: the final break plus one per trailing empty line
                    v.push('\n');
                    for _ in 0..trail {
                        v.push('\n');
                    }
                }
                _ => v.push('\n'), // clip
            }
            v
        }
    }
}

pub const DEFAULT_SECONDARY: &str = "tag:yaml.org,2002:";

/// The tag as one string: prefix bound to the handle followed by the suffix.
pub fn tag_string(t: &TagSpec, directives: &[Directive]) -> String {
    let lookup = |h: &str| -> Option<String> {
        directives.iter().rev().find_map(|d| match d {
            Directive::Tag(handle, prefix) if handle == h => Some(prefix.clone()),
            _ => None,
        })
    };
    match t {
        TagSpec::NonSpecific => "!".to_string(),
        TagSpec::Local(n) => format!("{}{n}", lookup("!").unwrap_or_else(|| "!".to_string())),
        TagSpec::Secondary(n) => format!("{}{n}", lookup("!!").unwrap_or_else(|| DEFAULT_SECONDARY.to_string())),
        TagSpec::Named(h, n) => format!("{}{n}", lookup(&format!("!{h}!")).unwrap_or_default()),
        TagSpec::Verbatim(u) => u.clone(),
    }
}

// ------------------------------------------------------------------------------------------------
// Expected events
// ------------------------------------------------------------------------------------------------

/// An expected event: like `Ev`, but a scalar may allow two texts (omitted node: `~` or empty, I1)
/// and tags are compared as handle+suffix strings.
#[derive(Clone, Debug, PartialEq, Eq)]
pub enum XEv {
    StreamStart,
    StreamEnd,
    DocStart(bool),
    DocEnd,
    Alias(usize),
    Scalar { v: String, style: ScalarStyle, aid: usize, tag: Option<String>, omitted: bool },
    SeqStart(usize, Option<String>),
    SeqEnd,
    MapStart(usize, Option<String>),
    MapEnd,
}

impl XEv {
    pub fn matches(&self, e: &Ev) -> bool {
        let tagcat = |t: &Option<(String, String)>| t.as_ref().map(|(h, s)| format!("{h}{s}"));
        match (self, e) {
            (XEv::StreamStart, Ev::StreamStart) | (XEv::StreamEnd, Ev::StreamEnd) | (XEv::DocEnd, Ev::DocEnd) => true,
            (XEv::SeqEnd, Ev::SeqEnd) | (XEv::MapEnd, Ev::MapEnd) => true,
            (XEv::DocStart(a), Ev::DocStart(b)) => a == b,
            (XEv::Alias(a), Ev::Alias(b)) => a == b,
            (XEv::Scalar { v, style, aid, tag, omitted }, Ev::Scalar { v: gv, style: gs, aid: ga, tag: gt }) => {
                let text_ok = if *omitted { gv == "~" || gv.is_empty() } else { gv == v };
                text_ok && style == gs && aid == ga && *tag == tagcat(gt)
            }
            (XEv::SeqStart(a, t), Ev::SeqStart(ga, gt)) => a == ga && *t == tagcat(gt),
            (XEv::MapStart(a, t), Ev::MapStart(ga, gt)) => a == ga && *t == tagcat(gt),
            _ => false,
        }
    }
    pub fn short(&self) -> String {
        format!("{self:?}")
    }
}

struct Expect<'a> {
    out: Vec<XEv>,
    next_anchor: usize,
    /// anchors of the current document: name -> id (latest wins)
    anchors: Vec<(String, usize)>,
    directives: &'a [Directive],
}

impl Expect<'_> {
    fn props(&mut self, n: &Node) -> (usize, Option<String>) {
        let aid = if let Some(a) = &n.anchor {
            let id = self.next_anchor;
            self.next_anchor += 1;
            self.anchors.push((a.clone(), id));
            id
        } else {
            0
        };
        (aid, n.tag.as_ref().map(|t| tag_string(t, self.directives)))
    }
    fn node(&mut self, n: &Node) {
        match &n.kind {
            Kind::Alias(name) => {
                let id = self.anchors.iter().rev().find(|(a, _)| a == name).map(|(_, i)| *i).unwrap_or(0);
                self.out.push(XEv::Alias(id));
            }
            Kind::Omitted => {
                let (aid, tag) = self.props(n);
                self.out.push(XEv::Scalar { v: String::new(), style: ScalarStyle::Plain, aid, tag, omitted: true });
            }
            Kind::Scalar { style, lines, chomp, trail } => {
                let (aid, tag) = self.props(n);
                self.out.push(XEv::Scalar { v: scalar_value(*style, lines, *chomp, *trail), style: style.scalar_style(), aid, tag, omitted: false });
            }
            Kind::Seq { items, .. } => {
                let (aid, tag) = self.props(n);
                self.out.push(XEv::SeqStart(aid, tag));
                for i in items {
                    self.node(i);
                }
                self.out.push(XEv::SeqEnd);
            }
            Kind::Map { pairs, .. } => {
                let (aid, tag) = self.props(n);
                self.out.push(XEv::MapStart(aid, tag));
                for (k, v) in pairs {
                    self.node(k);
                    self.node(v);
                }
                self.out.push(XEv::MapEnd);
            }
        }
    }
}

pub fn expected_events(s: &Stream) -> Vec<XEv> {
    let mut out = vec![XEv::StreamStart];
    let mut next_anchor = 1;
    for d in &s.docs {
        out.push(XEv::DocStart(d.explicit_start));
        let mut e = Expect { out: vec![], next_anchor, anchors: vec![], directives: &d.directives };
        e.node(&d.root);
        next_anchor = e.next_anchor;
        out.extend(e.out);
        out.push(XEv::DocEnd);
    }
    out.push(XEv::StreamEnd);
    out
}

// ------------------------------------------------------------------------------------------------
// Tree generation from a choice stream
// ------------------------------------------------------------------------------------------------

pub const PLAIN_WORDS: &[&str] = &[
    "a", "b", "foo", "bar baz", "x1", "42", "1.5", "true", "null", "~", "k", "key one", "v_1", "a.b", "e-mail", "-7", "word", "two words here", "0x1F",
    "Yes", "a:b", "a#b", "http://x.y/z", "q?", "x&y", "50%", "a!b", "it's",
];
pub const QUOTED_TEXTS: &[&str] = &["", "a b", "x: y", "# not a comment", "[a, b]", "{k: v}", "  lead", "trail  ", "- dash", "? q", "&a *b !c", "%d", "a,b", "plain"];
pub const BLOCK_LINES: &[&str] = &["text", "more text", "line: with colon", "# hash", "- dash", "x", "last one"];
pub const ANCHORS: &[&str] = &["a", "b", "c1", "anchor-x"];

pub struct GenCfg {
    pub max_nodes: usize,
    pub max_depth: usize,
    pub max_docs: usize,
    /// generate node properties, aliases, tags
    pub props: bool,
    pub directives: bool,
}

impl Default for GenCfg {
    fn default() -> Self {
        GenCfg { max_nodes: 60, max_depth: 6, max_docs: 4, props: true, directives: true }
    }
}

struct TreeGen<'a, 'b> {
    ch: &'b mut Choices<'a>,
    cfg: &'b GenCfg,
    budget: usize,
    anchors: Vec<String>,
    named_handle: bool,
}

impl TreeGen<'_, '_> {
    fn scalar(&mut self, flow_only: bool) -> Kind {
        let style = match self.ch.pick(if flow_only { 8 } else { 10 }) {
            0..=3 => Style::Plain,
            4 | 5 => Style::Double,
            6 | 7 => Style::Single,
            8 => Style::Literal,
            _ => Style::Folded,
        };
        match style {
            Style::Plain => {
                let mut lines = vec![PLAIN_WORDS[self.ch.pick(PLAIN_WORDS.len())].to_string()];
                if self.ch.pick(20) == 19 {
                    lines.push(PLAIN_WORDS[self.ch.pick(8)].to_string());
                }
                Kind::Scalar { style, lines, chomp: 0, trail: 0 }
            }
            Style::Single | Style::Double => {
                let mut lines = vec![QUOTED_TEXTS[self.ch.pick(QUOTED_TEXTS.len())].to_string()];
                if self.ch.pick(20) == 19 {
                    // a folded two-line variant: neither part may start / end with a blank
                    lines = vec!["first part".to_string(), "second".to_string()];
                }
                Kind::Scalar { style, lines, chomp: 0, trail: 0 }
            }
            _ => {
                let n = 1 + self.ch.pick(3);
                let lines = (0..n).map(|_| BLOCK_LINES[self.ch.pick(BLOCK_LINES.len())].to_string()).collect();
                let chomp = self.ch.pick(3) as u8;
                let trail = if chomp == 2 { self.ch.pick(3) as u8 } else { 0 };
                Kind::Scalar { style, lines, chomp, trail }
            }
        }
    }

    fn props(&mut self, n: &mut Node) {
        if !self.cfg.props {
            return;
        }
        if self.ch.pick(8) == 7 {
            let a = ANCHORS[self.ch.pick(ANCHORS.len())].to_string();
            n.anchor = Some(a);
        }
        if self.ch.pick(10) == 9 {
            n.tag = Some(match self.ch.pick(if self.named_handle { 5 } else { 4 }) {
                0 => TagSpec::Local("t".into()),
                1 => TagSpec::Secondary("str".into()),
                2 => TagSpec::Verbatim("tag:v.example:x".into()),
                3 => TagSpec::NonSpecific,
                _ => TagSpec::Named("e".into(), "x".into()),
            });
        }
    }

    fn node(&mut self, depth: usize, flow_only: bool) -> Node {
        self.node_in(depth, flow_only, true)
    }

    /// `allow_omitted`: an omitted node without properties cannot be an item of a flow sequence
    fn node_in(&mut self, depth: usize, flow_only: bool, allow_omitted: bool) -> Node {
        self.budget = self.budget.saturating_sub(1);
        let leaf_only = depth >= self.cfg.max_depth || self.budget == 0;
        let k = self.ch.pick(16);
        let mut n = Node { anchor: None, tag: None, kind: Kind::Omitted };
        if self.cfg.props && !self.anchors.is_empty() && k == 15 {
            let a = self.anchors[self.ch.pick(self.anchors.len())].clone();
            n.kind = Kind::Alias(a);
            return n;
        }
        // properties first: the anchor is visible to the node's own descendants
        self.props(&mut n);
        if let Some(a) = &n.anchor {
            self.anchors.push(a.clone());
        }
        n.kind = if leaf_only || k < 7 {
            if k == 6 && (allow_omitted || n.has_props()) {
                Kind::Omitted
            } else {
                self.scalar(flow_only)
            }
        } else if k < 11 {
            let flow = flow_only || self.ch.pick(4) == 3;
            let len = self.ch.pick(4);
            let mut items = vec![];
            for _ in 0..len {
                if self.budget == 0 {
                    break;
                }
                items.push(self.node_in(depth + 1, flow, !flow));
            }
            Kind::Seq { flow, items }
        } else {
            let flow = flow_only || self.ch.pick(4) == 3;
            let len = self.ch.pick(4);
            let mut pairs = vec![];
            for _ in 0..len {
                if self.budget == 0 {
                    break;
                }
                // keys are mostly scalars
                let key = if self.ch.pick(5) == 4 { self.node(depth + 1, flow) } else { self.key_scalar(flow) };
                let val = self.node(depth + 1, flow);
                pairs.push((key, val));
            }
            Kind::Map { flow, pairs }
        };
        n
    }

    fn key_scalar(&mut self, flow_only: bool) -> Node {
        self.budget = self.budget.saturating_sub(1);
        let mut n = Node { anchor: None, tag: None, kind: Kind::Omitted };
        let k = self.ch.pick(12);
        if self.cfg.props && !self.anchors.is_empty() && k == 11 {
            n.kind = Kind::Alias(self.anchors[self.ch.pick(self.anchors.len())].clone());
            return n;
        }
        self.props(&mut n);
        if let Some(a) = &n.anchor {
            self.anchors.push(a.clone());
        }
        n.kind = if k == 10 {
            Kind::Omitted
        } else {
            // single line, flow style
            let _ = flow_only;
            match self.ch.pick(4) {
                0 | 1 => Kind::Scalar { style: Style::Plain, lines: vec![PLAIN_WORDS[self.ch.pick(PLAIN_WORDS.len())].to_string()], chomp: 0, trail: 0 },
                2 => Kind::Scalar { style: Style::Double, lines: vec![QUOTED_TEXTS[self.ch.pick(QUOTED_TEXTS.len())].to_string()], chomp: 0, trail: 0 },
                _ => Kind::Scalar { style: Style::Single, lines: vec![QUOTED_TEXTS[self.ch.pick(QUOTED_TEXTS.len())].to_string()], chomp: 0, trail: 0 },
            }
        };
        n
    }
}

pub fn gen_stream(bytes: &[u8], cfg: &GenCfg) -> Stream {
    let mut ch = Choices::new(bytes);
    let ndocs = 1 + ch.pick(cfg.max_docs);
    let mut docs = vec![];
    for d in 0..ndocs {
        let mut directives = vec![];
        let mut named = false;
        if cfg.directives {
            if ch.pick(8) == 7 {
                directives.push(Directive::Yaml);
            }
            if ch.pick(6) == 5 {
                directives.push(Directive::Tag("!e!".into(), "tag:e.example,2000:".into()));
                named = true;
            }
            // re-target the secondary and the primary handle: `!!str` / `!t` then mean something else in
            // this document — and only in this document
            if ch.pick(10) == 9 {
                directives.push(Directive::Tag("!!".into(), "tag:s.example,2000:".into()));
            }
            if ch.pick(12) == 11 {
                directives.push(Directive::Tag("!".into(), "tag:p.example,2000:".into()));
            }
            if ch.pick(16) == 15 {
                directives.push(Directive::Reserved);
                // several reserved directives in one document are legal too
                if ch.pick(3) == 2 {
                    directives.push(Directive::Reserved);
                }
            }
        }
        let mut g = TreeGen { ch: &mut ch, cfg, budget: cfg.max_nodes / ndocs + 1, anchors: vec![], named_handle: named };
        let root = g.node(0, false);
        let explicit_start = !directives.is_empty() || d > 0 && ch.pick(3) != 2 || ch.pick(3) == 2 || matches!(root.kind, Kind::Omitted);
        let explicit_end = ch.pick(4) == 3;
        docs.push(Doc { directives, explicit_start, explicit_end, root });
    }
    // consistency of document boundaries
    for i in 0..docs.len() {
        if i > 0 {
            let prev_end = docs[i - 1].explicit_end;
            if !docs[i].directives.is_empty() && !prev_end {
                docs[i - 1].explicit_end = true;
            }
            if !docs[i].explicit_start && !docs[i - 1].explicit_end {
                docs[i].explicit_start = true;
            }
        }
    }
    Stream { docs }
}

// ------------------------------------------------------------------------------------------------
// Renderer
// ------------------------------------------------------------------------------------------------

#[derive(Clone, Copy, Debug, PartialEq, Eq)]
enum Intro {
    /// after `-` written at column `col`
    Dash(usize),
    /// after `?` at column
    Question(usize),
    /// after an explicit `:` at column
    ExplicitColon(usize),
    /// after the `:` of an implicit key of a mapping at indentation `i`
    KeyColon(usize),
    /// after `---`
    DocMarker,
    /// start of a bare document (cursor at line start)
    BareRoot,
}

#[derive(Default, Clone, Debug)]
pub struct Features {
    pub compact: u32,
    pub explicit_key: u32,
    pub seq_at_key_indent: u32,
    pub flow_in_block: u32,
    pub single_pair: u32,
    pub empty_key: u32,
    pub empty_value: u32,
    pub multiline_flow: u32,
    pub trailing_comma: u32,
    pub comments: u32,
    pub blank_lines: u32,
    pub directives: u32,
    pub props_own_line: u32,
    pub alias_key: u32,
    pub adjacent_value: u32,
    pub block_scalar: u32,
    pub multi_doc: u32,
    pub next_line_value: u32,
    pub props: u32,
    pub aliases: u32,
    pub tab_sep: u32,
    pub props_break: u32,
}

impl Features {
    pub fn classes(&self) -> Vec<&'static str> {
        let mut v = vec![];
        let mut add = |n: u32, s: &'static str| {
            if n > 0 {
                v.push(s);
            }
        };
        add(self.compact, "compact-form");
        add(self.explicit_key, "explicit-key");
        add(self.seq_at_key_indent, "seq-at-key-indent");
        add(self.flow_in_block, "flow-in-block");
        add(self.single_pair, "flow-single-pair");
        add(self.empty_key, "empty-key");
        add(self.empty_value, "empty-value");
        add(self.multiline_flow, "multi-line-flow");
        add(self.trailing_comma, "trailing-comma");
        add(self.comments, "comment");
        add(self.tab_sep, "tab-as-separation");
        add(self.props_break, "line-break-after-properties-in-flow");
        add(self.blank_lines, "blank-line");
        add(self.directives, "directive");
        add(self.props_own_line, "props-on-own-line");
        add(self.alias_key, "alias-as-key");
        add(self.adjacent_value, "adjacent-json-value");
        add(self.block_scalar, "block-scalar");
        add(self.multi_doc, "multi-doc");
        add(self.next_line_value, "value-on-next-line");
        add(self.props, "node-properties");
        add(self.aliases, "alias");
        v
    }
}

/// Positions (byte offsets into the rendered text) at which C06's damage operators apply.
#[derive(Clone, Debug)]
pub enum Site {
    Quoted { open: usize, close: usize, double: bool, implicit_block_key: bool, single_line: bool },
    Closer { pos: usize },
    /// first char of an entry line of a block collection (before its indentation)
    EntryLine { line_start: usize, indent: usize, first: bool, parent: isize },
    /// a continuation line of a multi-line flow collection; `block_n` = indentation of the enclosing block construct
    /// `plain_before`: a plain scalar was written inside the (outermost) flow collection before this line
    /// `in_scalar`: the line continues a multi-line scalar (Some(quoted?)) rather than starting a token
    FlowContLine { line_start: usize, indent: usize, block_n: isize, plain_before: bool, in_scalar: Option<bool> },
    /// a single-line plain scalar without properties in entry / value position of a block collection
    PlainValue { start: usize, len: usize, doc: usize },
    /// a single-line scalar without properties used as implicit key of a block mapping
    ImplicitKey { start: usize, end: usize, quoted: bool, flow_pair: bool },
    /// an implicit key that is a flow collection: `after_open` = position just behind its `[` / `{`
    CollectionKey { after_open: usize, map: bool, flow_pair: bool },
    DocEndMarker { pos_after: usize },
}

pub struct Renderer<'a> {
    pub sites: Vec<Site>,
    in_implicit_block_key: bool,
    cur_doc: usize,
    pub out: String,
    ch: Choices<'a>,
    pub feat: Features,
    /// the last thing written is a block scalar: no blank / comment lines may follow directly
    after_block_scalar: bool,
    /// layout richness: false = plain layout (no comments, single spaces)
    rich: bool,
    /// the previous block mapping entry was `? key` without a `:` line: an entry starting with
    /// `:` (empty implicit key) would be read as its value
    bare_question: bool,
    /// a document marker was just written: the separation that follows may be a tab
    after_marker: bool,
    /// a plain scalar has been written since the outermost flow collection was opened
    plain_in_flow: bool,
}

impl<'a> Renderer<'a> {
    pub fn new(layout: &'a [u8], rich: bool) -> Self {
        Renderer { sites: vec![], in_implicit_block_key: false, cur_doc: 0, out: String::new(), ch: Choices::new(layout), feat: Features::default(), after_block_scalar: false, rich, bare_question: false, after_marker: false, plain_in_flow: false }
    }

    fn spaces(&mut self, n: usize) {
        for _ in 0..n {
            self.out.push(' ');
        }
    }

    /// 1..=3 spaces of in-line separation (1 in plain layout)
    fn sep(&mut self) {
        if self.after_marker {
            self.after_marker = false;
            // s-separate-in-line is blanks *or tabs*: `---<TAB>node`
            if self.rich && self.ch.pick(4) == 3 {
                self.out.push('\t');
                self.feat.tab_sep += 1;
                return;
            }
        }
        let n = if self.rich { 1 + self.ch.pick(3) } else { 1 };
        self.spaces(n);
    }

    /// separation between a node's properties and its content: in-line, or — inside a flow
    /// collection, outside implicit keys of single pairs — a line break (s-separate-lines), after
    /// which the content continues at `cont` or deeper
    fn psep(&mut self, cont: usize, single_line: bool, in_flow: bool) {
        if in_flow && !single_line && self.rich && self.ch.pick(5) == 4 {
            self.feat.props_break += 1;
            if self.ch.pick(4) == 3 {
                self.out.push_str(" # pc");
                self.feat.comments += 1;
            }
            self.out.push('\n');
            let extra = self.ch.pick(3);
            self.sites.push(Site::FlowContLine { line_start: self.out.len(), indent: cont + extra, block_n: cont as isize - 1, plain_before: self.plain_in_flow, in_scalar: None });
            self.spaces(cont + extra);
            return;
        }
        self.sep();
    }

    /// end the current line: optional trailing blanks, optional comment, break
    fn eol(&mut self) {
        self.after_marker = false;
        if self.rich {
            match self.ch.pick(8) {
                6 => self.spaces(2),
                7 => {
                    self.out.push_str(" # c");
                    self.feat.comments += 1;
                }
                _ => {}
            }
        }
        self.out.push('\n');
    }

    /// optional blank / comment lines between block entries
    fn interline(&mut self) {
        if !self.rich || self.after_block_scalar {
            return;
        }
        match self.ch.pick(12) {
            10 => {
                let n = self.ch.pick(4);
                self.spaces(n);
                self.out.push('\n');
                self.feat.blank_lines += 1;
            }
            11 => {
                let n = self.ch.pick(7);
                self.spaces(n);
                self.out.push_str("# comment line\n");
                self.feat.comments += 1;
            }
            _ => {}
        }
    }

    fn tag_text(t: &TagSpec) -> String {
        match t {
            TagSpec::NonSpecific => "!".into(),
            TagSpec::Local(n) => format!("!{n}"),
            TagSpec::Secondary(n) => format!("!!{n}"),
            TagSpec::Named(h, n) => format!("!{h}!{n}"),
            TagSpec::Verbatim(u) => format!("!<{u}>"),
        }
    }

    /// write `&a !t` (either order), returns whether anything was written
    fn props(&mut self, n: &Node) -> bool {
        let a = n.anchor.as_ref().map(|a| format!("&{a}"));
        let t = n.tag.as_ref().map(Self::tag_text);
        match (a, t) {
            (None, None) => false,
            (Some(a), None) => {
                self.out.push_str(&a);
                self.feat.props += 1;
                true
            }
            (None, Some(t)) => {
                self.out.push_str(&t);
                self.feat.props += 1;
                true
            }
            (Some(a), Some(t)) => {
                self.feat.props += 1;
                if self.ch.pick(2) == 1 {
                    self.out.push_str(&t);
                    self.sep();
                    self.out.push_str(&a);
                } else {
                    self.out.push_str(&a);
                    self.sep();
                    self.out.push_str(&t);
                }
                true
            }
        }
    }

    // ---- flow style ----------------------------------------------------------------------------

    /// separation inside a flow collection: blanks, or (multi-line) comment + break + indentation
    fn fsep(&mut self, cont: usize, single_line: bool, min_one: bool) {
        if !single_line && self.rich && self.ch.pick(6) == 5 {
            self.feat.multiline_flow += 1;
            if self.ch.pick(4) == 3 {
                self.out.push_str(" # fc");
                self.feat.comments += 1;
            }
            self.out.push('\n');
            let extra = self.ch.pick(3);
            self.sites.push(Site::FlowContLine { line_start: self.out.len(), indent: cont + extra, block_n: cont as isize - 1, plain_before: self.plain_in_flow, in_scalar: None });
            self.spaces(cont + extra);
            return;
        }
        let n = if self.rich { self.ch.pick(3) } else { 0 };
        self.spaces(n.max(usize::from(min_one)));
    }

    fn flow_scalar_text(&mut self, style: Style, lines: &[String], cont: usize, in_flow: bool) {
        let q = match style {
            Style::Single => "'",
            Style::Double => "\"",
            _ => "",
        };
        let open = self.out.len();
        let was_plain_before = self.plain_in_flow;
        if q.is_empty() {
            self.plain_in_flow = true;
        }
        self.out.push_str(q);
        for (i, l) in lines.iter().enumerate() {
            if i > 0 {
                self.out.push('\n');
                let extra = if self.rich { self.ch.pick(3) } else { 0 };
                if in_flow && !l.is_empty() {
                    // a continuation line of a scalar inside a flow collection is a line of that collection
                    self.sites.push(Site::FlowContLine { line_start: self.out.len(), indent: cont + extra, block_n: cont as isize - 1, plain_before: was_plain_before, in_scalar: Some(!q.is_empty()) });
                }
                self.spaces(cont + extra);
            }
            self.out.push_str(l);
        }
        if !q.is_empty() {
            self.sites.push(Site::Quoted { open, close: self.out.len(), double: style == Style::Double, implicit_block_key: self.in_implicit_block_key, single_line: lines.len() == 1 });
        }
        self.out.push_str(q);
    }

    /// Write a flow-capable node inline. `cont` = indentation of continuation lines (>= n+1).
    /// Returns true if the node produced no characters at all (omitted without properties).
    fn flow_node(&mut self, n: &Node, cont: usize, single_line: bool, in_flow: bool) -> bool {
        match &n.kind {
            Kind::Alias(a) => {
                self.out.push('*');
                self.out.push_str(a);
                self.feat.aliases += 1;
                false
            }
            Kind::Omitted => !self.props(n),
            Kind::Scalar { style, lines, .. } => {
                if self.props(n) {
                    self.psep(cont, single_line, in_flow);
                }
                let lines: Vec<String> = if single_line { vec![lines.join(" ")] } else { lines.clone() };
                // a single-line rendering of a two-line scalar keeps the same value (joined by one space)
                self.flow_scalar_text(*style, &lines, cont, in_flow);
                false
            }
            Kind::Seq { items, .. } => {
                if !in_flow {
                    self.plain_in_flow = false;
                }
                if self.props(n) {
                    self.psep(cont, single_line, in_flow);
                }
                self.out.push('[');
                let mut first = true;
                for it in items {
                    if !first {
                        self.out.push(',');
                    }
                    first = false;
                    self.fsep(cont, single_line, false);
                    self.flow_seq_entry(it, cont, single_line);
                    self.fsep(cont, single_line, false);
                }
                if !items.is_empty() && self.ch.pick(6) == 5 {
                    self.out.push(',');
                    self.feat.trailing_comma += 1;
                    self.fsep(cont, single_line, false);
                }
                self.sites.push(Site::Closer { pos: self.out.len() });
                self.out.push(']');
                let _ = in_flow;
                false
            }
            Kind::Map { pairs, .. } => {
                if !in_flow {
                    self.plain_in_flow = false;
                }
                if self.props(n) {
                    self.psep(cont, single_line, in_flow);
                }
                self.out.push('{');
                let mut first = true;
                for (k, v) in pairs {
                    if !first {
                        self.out.push(',');
                    }
                    first = false;
                    self.fsep(cont, single_line, false);
                    self.flow_pair(k, v, cont, single_line, false);
                    self.fsep(cont, single_line, false);
                }
                if !pairs.is_empty() && self.ch.pick(6) == 5 {
                    self.out.push(',');
                    self.feat.trailing_comma += 1;
                    self.fsep(cont, single_line, false);
                }
                self.sites.push(Site::Closer { pos: self.out.len() });
                self.out.push('}');
                false
            }
        }
    }

    /// an entry of a flow sequence: a node, or — for a mapping with exactly one pair and no
    /// properties written in single-pair form — handled by the caller's tree (see `flow_seq_entry`)
    fn flow_seq_entry(&mut self, it: &Node, cont: usize, single_line: bool) {
        // A single-pair flow mapping without properties may be written as `k: v`
        if let Kind::Map { flow: true, pairs } = &it.kind {
            if pairs.len() == 1 && !it.has_props() && self.ch.pick(3) == 2 {
                let (k, v) = &pairs[0];
                self.feat.single_pair += 1;
                self.flow_pair(k, v, cont, single_line, true);
                return;
            }
        }
        let empty = self.flow_node(it, cont, single_line, true);
        if empty {
            // an empty entry is not allowed in a flow sequence (the generator does not produce
            // one); `~` is the spelling the omitted-node expectation accepts
            self.out.push('~');
            self.plain_in_flow = true;
        }
    }

    /// `k: v` | `k` | `k:` | `: v` | `"k":v` | `? k : v` | `? k`
    /// `in_seq`: a single pair inside a flow sequence (implicit key must be single-line, and the
    /// bare `k` form would denote a scalar, not a pair)
    fn flow_pair(&mut self, k: &Node, v: &Node, cont: usize, single_line: bool, in_seq: bool) {
        let v_omitted = matches!(v.kind, Kind::Omitted) && !v.has_props();
        let k_omitted = matches!(k.kind, Kind::Omitted) && !k.has_props();
        let explicit = self.ch.pick(6) == 5;
        if explicit {
            self.feat.explicit_key += 1;
            self.out.push('?');
            if k_omitted {
                self.feat.empty_key += 1;
                // `? ` then straight to the value indicator
                self.sep();
            } else {
                self.sep();
                self.flow_node(k, cont, single_line, true);
            }
            if v_omitted && self.ch.pick(2) == 1 {
                self.feat.empty_value += 1;
                return;
            }
            self.fsep(cont, single_line, true);
            self.out.push(':');
            if v_omitted {
                self.feat.empty_value += 1;
                return;
            }
            self.sep();
            self.flow_node(v, cont, single_line, true);
            return;
        }
        // implicit key
        let key_single = single_line || in_seq;
        let json_like = matches!(&k.kind, Kind::Scalar { style: Style::Single | Style::Double, .. } | Kind::Seq { .. } | Kind::Map { .. });
        if k_omitted {
            self.feat.empty_key += 1;
        } else {
            // the implicit key of a single pair in a flow sequence must stay on one line (C06 D07)
            let was = self.in_implicit_block_key;
            self.in_implicit_block_key = in_seq;
            let kstart = self.out.len();
            self.flow_node(k, cont, key_single, true);
            self.in_implicit_block_key = was;
            if in_seq {
                match &k.kind {
                    Kind::Scalar { style, .. } => self.sites.push(Site::ImplicitKey { start: kstart, end: self.out.len(), quoted: *style != Style::Plain, flow_pair: true }),
                    Kind::Seq { .. } | Kind::Map { .. } => {
                        if let Some(p) = self.out[kstart..].find(['[', '{']) {
                            self.sites.push(Site::CollectionKey { after_open: kstart + p + 1, map: matches!(k.kind, Kind::Map { .. }), flow_pair: true });
                        }
                    }
                    _ => {}
                }
            }
        }
        if v_omitted && !in_seq && !k_omitted && self.ch.pick(2) == 1 {
            // `k` alone in a flow mapping: value omitted
            self.feat.empty_value += 1;
            return;
        }
        // separation before ':' — an alias or a properties-only key needs a blank
        let needs_blank = matches!(k.kind, Kind::Alias(_)) || (matches!(k.kind, Kind::Omitted) && k.has_props());
        if matches!(k.kind, Kind::Alias(_)) {
            self.feat.alias_key += 1;
        }
        if needs_blank {
            self.sep();
        } else if !k_omitted && self.rich && self.ch.pick(4) == 3 && !(in_seq && !key_single) {
            self.spaces(1);
        }
        self.out.push(':');
        if v_omitted {
            self.feat.empty_value += 1;
            return;
        }
        if json_like && self.ch.pick(4) == 3 {
            self.feat.adjacent_value += 1;
        } else {
            self.sep();
        }
        self.flow_node(v, cont, single_line, true);
    }

    // ---- block style ---------------------------------------------------------------------------

    fn block_scalar(&mut self, style: Style, lines: &[String], chomp: u8, trail: u8, n: isize) {
        self.feat.block_scalar += 1;
        self.out.push(if style == Style::Literal { '|' } else { '>' });
        // content indentation: n + 1 + k, at least 1 so that top-level content is never at column 0
        let k = if self.rich { self.ch.pick(4) } else { 1 };
        let c = ((n + 1).max(1) as usize) + k;
        let explicit = n >= 0 && self.ch.pick(4) == 3 && (c as isize - n) <= 9;
        let ind = if explicit { format!("{}", c as isize - n) } else { String::new() };
        let ch = match chomp {
            1 => "-",
            2 => "+",
            _ => "",
        };
        if self.ch.pick(2) == 1 {
            self.out.push_str(&ind);
            self.out.push_str(ch);
        } else {
            self.out.push_str(ch);
            self.out.push_str(&ind);
        }
        if self.rich && self.ch.pick(8) == 7 {
            self.out.push_str(" # header comment");
            self.feat.comments += 1;
        }
        self.out.push('\n');
        for l in lines {
            self.spaces(c);
            self.out.push_str(l);
            self.out.push('\n');
        }
        for _ in 0..trail {
            // trailing empty lines (kept only with `+`): up to c spaces, here none or all
            if self.ch.pick(2) == 1 {
                self.spaces(c.min(2));
            }
            self.out.push('\n');
        }
        self.after_block_scalar = true;
    }

    /// Render `node` in block context after `intro`; `n` = indentation of the enclosing block
    /// construct (-1 at the root). Always leaves the cursor at the start of a line.
    fn block_node(&mut self, node: &Node, n: isize, intro: Intro) {
        let min_child = (n + 1).max(0) as usize;
        match &node.kind {
            Kind::Scalar { style, lines, chomp, trail } if style.is_block() => {
                if intro != Intro::BareRoot {
                    self.sep();
                }
                if self.props(node) {
                    self.sep();
                }
                self.block_scalar(*style, lines, *chomp, *trail, n);
            }
            Kind::Seq { flow: false, items } if !items.is_empty() => self.block_collection(node, n, intro, Some(items), None),
            Kind::Map { flow: false, pairs } if !pairs.is_empty() => self.block_collection(node, n, intro, None, Some(pairs)),
            Kind::Omitted if !node.has_props() => {
                self.after_block_scalar = false;
                if intro == Intro::BareRoot {
                    // not expressible: the generator makes such documents explicit
                    self.out.push_str("~\n");
                } else {
                    self.eol();
                }
            }
            _ => {
                // a flow-style node (scalar, alias, flow collection, empty block collection written
                // as [] / {}, omitted node with properties)
                self.after_block_scalar = false;
                let as_flow: Node;
                let node = match &node.kind {
                    Kind::Seq { flow: false, .. } => {
                        as_flow = Node { anchor: node.anchor.clone(), tag: node.tag.clone(), kind: Kind::Seq { flow: true, items: vec![] } };
                        &as_flow
                    }
                    Kind::Map { flow: false, .. } => {
                        as_flow = Node { anchor: node.anchor.clone(), tag: node.tag.clone(), kind: Kind::Map { flow: true, pairs: vec![] } };
                        &as_flow
                    }
                    _ => node,
                };
                if matches!(node.kind, Kind::Seq { .. } | Kind::Map { .. }) && intro != Intro::BareRoot && intro != Intro::DocMarker {
                    self.feat.flow_in_block += 1;
                }
                let next_line = intro != Intro::BareRoot && self.rich && self.ch.pick(8) == 7 && !matches!(node.kind, Kind::Omitted);
                if next_line {
                    // content moves to the following line(s), indented at least n+1
                    self.feat.next_line_value += 1;
                    self.eol();
                    let extra = self.ch.pick(3);
                    let ind = min_child + extra;
                    self.spaces(ind);
                    self.flow_node(node, min_child, false, false);
                } else {
                    let start_col_known = intro != Intro::BareRoot;
                    if start_col_known {
                        self.sep();
                    }
                    let vstart = self.out.len();
                    self.flow_node(node, min_child, false, false);
                    if let Kind::Scalar { style: Style::Plain, lines, .. } = &node.kind {
                        if lines.len() == 1 && !node.has_props() && matches!(intro, Intro::Dash(_) | Intro::KeyColon(_) | Intro::ExplicitColon(_)) {
                            self.sites.push(Site::PlainValue { start: vstart, len: self.out.len() - vstart, doc: self.cur_doc });
                        }
                    }
                }
                self.eol();
            }
        }
    }

    fn block_collection(&mut self, node: &Node, n: isize, intro: Intro, items: Option<&Vec<Node>>, pairs: Option<&Vec<(Node, Node)>>) {
        self.after_block_scalar = false;
        let min_child = (n + 1).max(0) as usize;
        // compact form: `- - x`, `- k: v`, `? - x` (no properties on the nested collection)
        let compact_ok = matches!(intro, Intro::Dash(_) | Intro::Question(_) | Intro::ExplicitColon(_)) && !node.has_props();
        // the first entry of a compact mapping must be an implicit-key entry or an explicit one: both fine
        if compact_ok && self.ch.pick(3) >= 1 {
            self.feat.compact += 1;
            let col = match intro {
                Intro::Dash(c) | Intro::Question(c) | Intro::ExplicitColon(c) => c,
                _ => 0,
            };
            let m = if self.rich { 1 + self.ch.pick(3) } else { 1 };
            self.spaces(m);
            let i = col + 1 + m;
            self.entries(i, items, pairs, true, n);
            return;
        }
        // non-compact: optional properties on the introducer's line, break, then the entries
        let mut i = min_child + if self.rich { self.ch.pick(4) } else if n >= 0 { 2 } else { 0 };
        if let (Intro::KeyColon(ki), Some(_)) = (intro, items) {
            // a block sequence may sit at the indentation of its parent key
            if self.ch.pick(3) == 2 {
                i = ki;
                self.feat.seq_at_key_indent += 1;
            }
        }
        if intro == Intro::BareRoot {
            if node.has_props() {
                self.props(node);
                self.eol();
                self.feat.props_own_line += 1;
            }
            let i = if self.rich && self.ch.pick(8) == 7 { 1 + self.ch.pick(3) } else { 0 };
            self.entries(i, items, pairs, false, n);
            return;
        }
        if node.has_props() {
            if self.rich && self.ch.pick(4) == 3 && intro != Intro::DocMarker {
                // properties on their own line, indented at least n+1
                self.feat.props_own_line += 1;
                self.eol();
                let pi = min_child + self.ch.pick(2);
                self.spaces(pi.max(if i > 0 { 1.min(i) } else { 0 }).max(min_child));
                self.props(node);
                self.eol();
            } else {
                self.sep();
                self.props(node);
                self.eol();
            }
        } else {
            self.eol();
        }
        self.entries(i, items, pairs, false, n);
    }

    /// entries of a block collection at indentation `i`; `inline_first`: the first entry continues
    /// the current line (compact form)
    fn entries(&mut self, i: usize, items: Option<&Vec<Node>>, pairs: Option<&Vec<(Node, Node)>>, inline_first: bool, parent: isize) {
        self.bare_question = false;
        self.entries_inner(i, items, pairs, inline_first, parent);
        self.bare_question = false;
    }

    fn entries_inner(&mut self, i: usize, items: Option<&Vec<Node>>, pairs: Option<&Vec<(Node, Node)>>, inline_first: bool, parent: isize) {
        if let Some(items) = items {
            for (k, it) in items.iter().enumerate() {
                if !(k == 0 && inline_first) {
                    self.interline();
                    self.sites.push(Site::EntryLine { line_start: self.out.len(), indent: i, first: k == 0, parent });
                    self.spaces(i);
                }
                self.out.push('-');
                self.block_node(it, i as isize, Intro::Dash(i));
            }
        }
        if let Some(pairs) = pairs {
            for (k, (key, val)) in pairs.iter().enumerate() {
                if !(k == 0 && inline_first) {
                    self.interline();
                    self.sites.push(Site::EntryLine { line_start: self.out.len(), indent: i, first: k == 0, parent });
                    self.spaces(i);
                }
                self.block_pair(key, val, i);
            }
        }
    }

    fn block_pair(&mut self, key: &Node, val: &Node, i: usize) {
        let implicit_ok = key.single_line_capable();
        let key_omitted = matches!(key.kind, Kind::Omitted) && !key.has_props();
        let val_omitted = matches!(val.kind, Kind::Omitted) && !val.has_props();
        let explicit = !implicit_ok || self.ch.pick(6) == 5 || (self.bare_question && key_omitted);
        self.bare_question = false;
        if explicit {
            self.feat.explicit_key += 1;
            self.out.push('?');
            self.block_node(key, i as isize, Intro::Question(i));
            if val_omitted && self.ch.pick(2) == 1 {
                self.feat.empty_value += 1;
                self.bare_question = true;
                return;
            }
            self.interline();
            self.spaces(i);
            self.out.push(':');
            if val_omitted {
                self.feat.empty_value += 1;
            }
            self.block_node(val, i as isize, Intro::ExplicitColon(i));
            return;
        }
        // implicit key: single line
        if key_omitted {
            self.feat.empty_key += 1;
        } else {
            self.after_block_scalar = false;
            let kstart = self.out.len();
            self.in_implicit_block_key = true;
            self.flow_node(key, i + 1, true, false);
            self.in_implicit_block_key = false;
            match &key.kind {
                Kind::Scalar { style, .. } => self.sites.push(Site::ImplicitKey { start: kstart, end: self.out.len(), quoted: *style != Style::Plain, flow_pair: false }),
                Kind::Seq { .. } | Kind::Map { .. } => {
                    if let Some(p) = self.out[kstart..].find(['[', '{']) {
                        self.sites.push(Site::CollectionKey { after_open: kstart + p + 1, map: matches!(key.kind, Kind::Map { .. }), flow_pair: false });
                    }
                }
                _ => {}
            }
            let needs_blank = matches!(key.kind, Kind::Alias(_)) || (matches!(key.kind, Kind::Omitted) && key.has_props());
            if matches!(key.kind, Kind::Alias(_)) {
                self.feat.alias_key += 1;
            }
            if needs_blank {
                self.sep();
            } else if self.rich && self.ch.pick(6) == 5 {
                self.spaces(1);
            }
        }
        self.out.push(':');
        if val_omitted {
            self.feat.empty_value += 1;
        }
        self.block_node(val, i as isize, Intro::KeyColon(i));
    }

    // ---- documents -----------------------------------------------------------------------------

    pub fn stream(&mut self, s: &Stream) {
        if s.docs.len() > 1 {
            self.feat.multi_doc += 1;
        }
        for (k, d) in s.docs.iter().enumerate() {
            self.cur_doc = k;
            if k == 0 && self.rich && self.ch.pick(8) == 7 {
                self.out.push_str("# leading comment\n");
                self.feat.comments += 1;
            }
            for dir in &d.directives {
                self.feat.directives += 1;
                match dir {
                    Directive::Yaml => self.out.push_str("%YAML 1.2"),
                    Directive::Tag(h, p) => {
                        self.out.push_str("%TAG ");
                        self.out.push_str(h);
                        self.out.push(' ');
                        self.out.push_str(p);
                    }
                    Directive::Reserved => self.out.push_str("%FOO bar baz"),
                }
                self.eol();
            }
            self.after_block_scalar = false;
            if d.explicit_start {
                self.out.push_str("---");
                self.after_marker = true;
                self.block_node(&d.root, -1, Intro::DocMarker);
                self.after_marker = false;
            } else {
                self.block_node(&d.root, -1, Intro::BareRoot);
            }
            if d.explicit_end {
                self.out.push_str("...");
                self.sites.push(Site::DocEndMarker { pos_after: self.out.len() });
                self.after_block_scalar = false;
                if self.rich && self.ch.pick(8) == 7 {
                    self.out.push_str("\t# end\n");
                    self.feat.tab_sep += 1;
                    self.feat.comments += 1;
                } else {
                    self.eol();
                }
            }
        }
    }
}

pub fn render(s: &Stream, layout: &[u8], rich: bool) -> (String, Features) {
    let mut r = Renderer::new(layout, rich);
    r.stream(s);
    (r.out, r.feat)
}

pub fn render_with_sites(s: &Stream, layout: &[u8], rich: bool) -> (String, Vec<Site>) {
    let mut r = Renderer::new(layout, rich);
    r.stream(s);
    (r.out, r.sites)
}
