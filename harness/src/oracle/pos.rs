//! R3 — position counter: char index -> (line, col), computed from the input's characters alone.
//! Lines are 1-based, columns 0-based (as `Marker` reports them). LF, a lone CR, and CR LF (as one
//! break) end a line.

pub struct PosTable {
    pub chars: Vec<char>,
    /// (line, col) of every char index 0..=len
    pub lc: Vec<(usize, usize)>,
}

impl PosTable {
    pub fn new(input: &str) -> PosTable {
        let chars: Vec<char> = input.chars().collect();
        let mut lc = Vec::with_capacity(chars.len() + 1);
        let (mut line, mut col) = (1usize, 0usize);
        let mut i = 0;
        while i < chars.len() {
            lc.push((line, col));
            match chars[i] {
                '\n' => {
                    line += 1;
                    col = 0;
                }
                '\r' => {
                    if i + 1 < chars.len() && chars[i + 1] == '\n' {
                        // the LF of a CRLF pair sits on the same line, one column further
                        lc.push((line, col + 1));
                        i += 1;
                    }
                    line += 1;
                    col = 0;
                }
                _ => col += 1,
            }
            i += 1;
        }
        lc.push((line, col));
        PosTable { chars, lc }
    }
    pub fn len(&self) -> usize {
        self.chars.len()
    }
    pub fn is_empty(&self) -> bool {
        self.chars.is_empty()
    }
    pub fn at(&self, index: usize) -> Option<(usize, usize)> {
        self.lc.get(index).copied()
    }
    pub fn slice(&self, a: usize, b: usize) -> String {
        self.chars[a.min(self.chars.len())..b.min(self.chars.len())].iter().collect()
    }
}
