pub mod grammar;
pub mod pos;
pub mod core;
pub mod fold;
