pub mod grammar;
pub mod pos;
pub mod core;
