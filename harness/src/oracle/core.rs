//! R4 — core-schema reader: a hand-written matcher for the YAML 1.2.2 §10.3.2 tag-resolution
//! regular expressions. No regex crate, no `from_str_radix` leniency.
//!
//!   null  : null | Null | NULL | ~ | (empty)
//!   bool  : true | True | TRUE | false | False | FALSE
//!   int   : [-+]? [0-9]+   |   0o [0-7]+   |   0x [0-9a-fA-F]+
//!   float : [-+]? ( \. [0-9]+ | [0-9]+ ( \. [0-9]* )? ) ( [eE] [-+]? [0-9]+ )?
//!           [-+]? ( \.inf | \.Inf | \.INF )      \.nan | \.NaN | \.NAN

#[derive(Clone, Copy, PartialEq, Debug)]
pub enum IntForm {
    Dec,
    Hex,
    Oct,
}

#[derive(Clone, PartialEq, Debug)]
pub enum Core {
    /// `canonical` = one of `null`, `~` (must be recognised); otherwise optional spelling
    Null { must: bool },
    Bool { value: bool, must: bool },
    /// value as i128 (None when even i128 overflows: far outside 64 bits)
    Int { value: Option<i128>, form: IntForm },
    /// a decimal / exponent float; the numeric value is `text.parse::<f64>()`
    Float,
    Inf { negative: bool },
    Nan,
    Str,
}

fn all(s: &str, f: impl Fn(u8) -> bool) -> bool {
    !s.is_empty() && s.bytes().all(f)
}

fn parse_radix(digits: &str, radix: u32) -> Option<i128> {
    let mut v: i128 = 0;
    for c in digits.chars() {
        let d = c.to_digit(radix)? as i128;
        v = v.checked_mul(radix as i128)?.checked_add(d)?;
    }
    Some(v)
}

fn is_float_literal(t: &str) -> bool {
    let b = t.as_bytes();
    let mut i = 0;
    if i < b.len() && (b[i] == b'-' || b[i] == b'+') {
        i += 1;
    }
    let digits = |i: &mut usize| {
        let s = *i;
        while *i < b.len() && b[*i].is_ascii_digit() {
            *i += 1;
        }
        *i - s
    };
    if i < b.len() && b[i] == b'.' {
        i += 1;
        if digits(&mut i) == 0 {
            return false;
        }
    } else {
        if digits(&mut i) == 0 {
            return false;
        }
        if i < b.len() && b[i] == b'.' {
            i += 1;
            digits(&mut i);
        }
    }
    if i < b.len() && (b[i] == b'e' || b[i] == b'E') {
        i += 1;
        if i < b.len() && (b[i] == b'-' || b[i] == b'+') {
            i += 1;
        }
        if digits(&mut i) == 0 {
            return false;
        }
    }
    i == b.len()
}

pub fn classify(t: &str) -> Core {
    match t {
        "null" | "~" => return Core::Null { must: true },
        "Null" | "NULL" | "" => return Core::Null { must: false },
        "true" => return Core::Bool { value: true, must: true },
        "false" => return Core::Bool { value: false, must: true },
        "True" | "TRUE" => return Core::Bool { value: true, must: false },
        "False" | "FALSE" => return Core::Bool { value: false, must: false },
        ".nan" | ".NaN" | ".NAN" => return Core::Nan,
        ".inf" | ".Inf" | ".INF" | "+.inf" | "+.Inf" | "+.INF" => return Core::Inf { negative: false },
        "-.inf" | "-.Inf" | "-.INF" => return Core::Inf { negative: true },
        _ => {}
    }
    if let Some(d) = t.strip_prefix("0o") {
        if all(d, |c| (b'0'..=b'7').contains(&c)) {
            return Core::Int { value: parse_radix(d, 8), form: IntForm::Oct };
        }
    }
    if let Some(d) = t.strip_prefix("0x") {
        if all(d, |c| c.is_ascii_hexdigit()) {
            return Core::Int { value: parse_radix(d, 16), form: IntForm::Hex };
        }
    }
    {
        let (neg, d) = match t.as_bytes().first() {
            Some(b'-') => (true, &t[1..]),
            Some(b'+') => (false, &t[1..]),
            _ => (false, t),
        };
        if all(d, |c| c.is_ascii_digit()) {
            let v = parse_radix(d, 10).map(|v| if neg { -v } else { v });
            return Core::Int { value: v, form: IntForm::Dec };
        }
    }
    if is_float_literal(t) {
        return Core::Float;
    }
    Core::Str
}

/// cheap "near a literal" test used for the non-trivial rule: the text, or the text with one
/// character removed, classifies as non-string
pub fn near_literal(t: &str) -> bool {
    if classify(t) != Core::Str {
        return true;
    }
    let cs: Vec<char> = t.chars().collect();
    for i in 0..cs.len() {
        let u: String = cs.iter().enumerate().filter(|(j, _)| *j != i).map(|(_, c)| *c).collect();
        if !u.is_empty() && classify(&u) != Core::Str {
            return true;
        }
    }
    false
}

#[cfg(test)]
mod tests {
    use super::*;
    #[test]
    fn literals() {
        assert_eq!(classify("0x1F"), Core::Int { value: Some(31), form: IntForm::Hex });
        assert_eq!(classify("0o17"), Core::Int { value: Some(15), form: IntForm::Oct });
        assert_eq!(classify("-12"), Core::Int { value: Some(-12), form: IntForm::Dec });
        assert_eq!(classify("+12"), Core::Int { value: Some(12), form: IntForm::Dec });
        assert_eq!(classify("++1"), Core::Str);
        assert_eq!(classify("0x+1"), Core::Str);
        assert_eq!(classify("-0x1"), Core::Str);
        assert_eq!(classify("1e3"), Core::Float);
        assert_eq!(classify("1."), Core::Float);
        assert_eq!(classify(".5"), Core::Float);
        assert_eq!(classify("."), Core::Str);
        assert_eq!(classify("1e"), Core::Str);
        assert_eq!(classify("inf"), Core::Str);
        assert_eq!(classify("nan"), Core::Str);
        assert_eq!(classify("-.inf"), Core::Inf { negative: true });
        assert_eq!(classify("-.nan"), Core::Str);
        assert_eq!(classify("1_000"), Core::Str);
        assert_eq!(classify("0o8"), Core::Str);
        assert_eq!(classify("0xg"), Core::Str);
        assert_eq!(classify("1.5e+3"), Core::Float);
        assert_eq!(classify("1.5e"), Core::Str);
        assert_eq!(classify("e5"), Core::Str);
    }
}
