//! R5 — reference loader (a fold of the event list into a model tree) and
//! R8 — canonical conversions of the four library node types into the same model.

use crate::drive::{Ev, TagT};
use saphyr::{MarkedYaml, MarkedYamlOwned, Scalar, ScalarOwned, ScalarStyle, Tag, Yaml, YamlData, YamlDataOwned, YamlOwned};
use std::borrow::Cow;
use std::collections::HashMap;

#[derive(Clone, Debug, PartialEq)]
pub enum M {
    Null,
    Bool(bool),
    Int(i64),
    /// bit pattern (NaN canonicalised)
    Float(u64),
    Str(String),
    Seq(Vec<M>),
    Map(Vec<(M, M)>),
    Bad,
    Alias(usize),
    Repr(String, ScalarStyle, TagT),
}

pub fn fbits(f: f64) -> u64 {
    if f.is_nan() {
        f64::NAN.to_bits()
    } else {
        f.to_bits()
    }
}

impl M {
    /// Equality as the library's node `Eq` sees it (used to decide which keys collide):
    /// floats compare like OrderedFloat (NaN == NaN, -0.0 == 0.0), mappings by order.
    pub fn key_eq(&self, other: &M) -> bool {
        match (self, other) {
            (M::Float(a), M::Float(b)) => {
                let (x, y) = (f64::from_bits(*a), f64::from_bits(*b));
                (x.is_nan() && y.is_nan()) || x == y
            }
            (M::Seq(a), M::Seq(b)) => a.len() == b.len() && a.iter().zip(b).all(|(x, y)| x.key_eq(y)),
            (M::Map(a), M::Map(b)) => a.len() == b.len() && a.iter().zip(b).all(|((k1, v1), (k2, v2))| k1.key_eq(k2) && v1.key_eq(v2)),
            (a, b) => a == b,
        }
    }

    pub fn short(&self) -> String {
        let s = format!("{self:?}");
        if s.chars().count() > 300 {
            format!("{}…", s.chars().take(300).collect::<String>())
        } else {
            s
        }
    }

    pub fn count_nodes(&self) -> usize {
        match self {
            M::Seq(v) => 1 + v.iter().map(|x| x.count_nodes()).sum::<usize>(),
            M::Map(m) => 1 + m.iter().map(|(k, v)| k.count_nodes() + v.count_nodes()).sum::<usize>(),
            _ => 1,
        }
    }

    pub fn any(&self, f: &dyn Fn(&M) -> bool) -> bool {
        if f(self) {
            return true;
        }
        match self {
            M::Seq(v) => v.iter().any(|x| x.any(f)),
            M::Map(m) => m.iter().any(|(k, v)| k.any(f) || v.any(f)),
            _ => false,
        }
    }
}

pub fn m_of_scalar(s: &Scalar<'_>) -> M {
    match s {
        Scalar::Null => M::Null,
        Scalar::Boolean(b) => M::Bool(*b),
        Scalar::Integer(i) => M::Int(*i),
        Scalar::FloatingPoint(f) => M::Float(fbits(f.into_inner())),
        Scalar::String(s) => M::Str(s.to_string()),
    }
}

fn m_of_scalar_owned(s: &ScalarOwned) -> M {
    m_of_scalar(&s.as_scalar())
}

fn tagt(t: &Option<Tag>) -> TagT {
    t.as_ref().map(|t| (t.handle.clone(), t.suffix.clone()))
}

pub fn m_of_yaml(y: &Yaml<'_>) -> M {
    match y {
        Yaml::Representation(v, s, t) => M::Repr(v.to_string(), *s, tagt(t)),
        Yaml::Value(s) => m_of_scalar(s),
        Yaml::Sequence(v) => M::Seq(v.iter().map(m_of_yaml).collect()),
        Yaml::Mapping(m) => M::Map(m.iter().map(|(k, v)| (m_of_yaml(k), m_of_yaml(v))).collect()),
        Yaml::Alias(i) => M::Alias(*i),
        Yaml::BadValue => M::Bad,
    }
}

pub fn m_of_owned(y: &YamlOwned) -> M {
    match y {
        YamlOwned::Representation(v, s, t) => M::Repr(v.clone(), *s, tagt(t)),
        YamlOwned::Value(s) => m_of_scalar_owned(s),
        YamlOwned::Sequence(v) => M::Seq(v.iter().map(m_of_owned).collect()),
        YamlOwned::Mapping(m) => M::Map(m.iter().map(|(k, v)| (m_of_owned(k), m_of_owned(v))).collect()),
        YamlOwned::Alias(i) => M::Alias(*i),
        YamlOwned::BadValue => M::Bad,
    }
}

pub fn m_of_marked(y: &MarkedYaml<'_>) -> M {
    match &y.data {
        YamlData::Representation(v, s, t) => M::Repr(v.to_string(), *s, tagt(t)),
        YamlData::Value(s) => m_of_scalar(s),
        YamlData::Sequence(v) => M::Seq(v.iter().map(m_of_marked).collect()),
        YamlData::Mapping(m) => M::Map(m.iter().map(|(k, v)| (m_of_marked(k), m_of_marked(v))).collect()),
        YamlData::Alias(i) => M::Alias(*i),
        YamlData::BadValue => M::Bad,
    }
}

pub fn m_of_marked_owned(y: &MarkedYamlOwned) -> M {
    match &y.data {
        YamlDataOwned::Representation(v, s, t) => M::Repr(v.clone(), *s, tagt(t)),
        YamlDataOwned::Value(s) => m_of_scalar_owned(s),
        YamlDataOwned::Sequence(v) => M::Seq(v.iter().map(m_of_marked_owned).collect()),
        YamlDataOwned::Mapping(m) => M::Map(m.iter().map(|(k, v)| (m_of_marked_owned(k), m_of_marked_owned(v))).collect()),
        YamlDataOwned::Alias(i) => M::Alias(*i),
        YamlDataOwned::BadValue => M::Bad,
    }
}

/// Scalar resolution plug: (text, style, tag) -> model leaf.
pub type Resolver = dyn Fn(&str, ScalarStyle, &TagT) -> M;

/// The library's own resolver (so that C07 judges the loader, not the resolver).
pub fn lib_resolver(text: &str, style: ScalarStyle, tag: &TagT) -> M {
    let t = tag.as_ref().map(|(h, s)| Tag { handle: h.clone(), suffix: s.clone() });
    match Scalar::parse_from_cow_and_metadata(Cow::Borrowed(text), style, t.as_ref()) {
        Some(s) => m_of_scalar(&s),
        None => M::Bad,
    }
}

/// C07's resolver: the library's own, except where the value does not depend on the core schema's
/// regular expressions at all — an untagged scalar that is not plain is its text (YAML 1.2.2
/// 10.3.2: only plain scalars are matched against the schema).
pub fn c07_resolver(text: &str, style: ScalarStyle, tag: &TagT) -> M {
    if tag.is_none() && style != ScalarStyle::Plain {
        return M::Str(text.to_string());
    }
    // an untagged plain scalar that matches none of the core schema's regular expressions (the
    // hand-written matcher of oracle/core.rs) is a string, whatever the library's resolver says
    if tag.is_none() && crate::oracle::core::classify(text) == crate::oracle::core::Core::Str {
        return M::Str(text.to_string());
    }
    lib_resolver(text, style, tag)
}

/// Keep the representation (deferred resolution).
pub fn repr_resolver(text: &str, style: ScalarStyle, tag: &TagT) -> M {
    M::Repr(text.to_string(), style, tag.clone())
}

enum Open {
    Seq(Vec<M>, usize),
    /// all nodes of the mapping in order (keys and values alternate by position)
    Map(Vec<M>, usize),
}

/// Pair up nodes by position, later duplicate key wins. `last_position` decides where a duplicated
/// key sits (hashlink's `insert` moves it to the back; the statement allows either, I3).
pub fn pair_up(nodes: Vec<M>, last_position: bool) -> Vec<(M, M)> {
    let mut out: Vec<(M, M)> = vec![];
    let mut it = nodes.into_iter();
    while let Some(k) = it.next() {
        let v = it.next().unwrap_or(M::Bad);
        if let Some(pos) = out.iter().position(|(k2, _)| k2.key_eq(&k)) {
            if last_position {
                out.remove(pos);
                out.push((k, v));
            } else {
                out[pos].1 = v;
            }
        } else {
            out.push((k, v));
        }
    }
    out
}

/// Fold an accepted event list into documents.
pub fn fold(evs: &[Ev], resolve: &Resolver, last_position: bool) -> Result<Vec<M>, String> {
    let mut docs = vec![];
    let mut stack: Vec<Open> = vec![];
    let mut anchors: HashMap<usize, M> = HashMap::new();
    let mut root: Option<M> = None;
    let mut in_doc = false;

    fn complete(node: M, aid: usize, stack: &mut Vec<Open>, anchors: &mut HashMap<usize, M>, root: &mut Option<M>) {
        if aid > 0 {
            anchors.insert(aid, node.clone());
        }
        match stack.last_mut() {
            Some(Open::Seq(v, _)) => v.push(node),
            Some(Open::Map(v, _)) => v.push(node),
            None => *root = Some(node),
        }
    }

    for ev in evs {
        match ev {
            Ev::StreamStart | Ev::StreamEnd | Ev::Nothing => {}
            Ev::DocStart(_) => {
                in_doc = true;
                root = None;
                // anchors are scoped to their document (a stale entry must not satisfy an alias
                // to a still-open node of a later document)
                anchors.clear();
            }
            Ev::DocEnd => {
                if !in_doc {
                    return Err("DocumentEnd outside a document".into());
                }
                in_doc = false;
                docs.push(root.take().ok_or("document without a node")?);
            }
            Ev::Scalar { v, style, aid, tag } => {
                let m = resolve(v, *style, tag);
                complete(m, *aid, &mut stack, &mut anchors, &mut root);
            }
            Ev::Alias(id) => {
                // a copy of the *completed* anchored node; a reference to a still-open node is Bad
                let m = anchors.get(id).cloned().unwrap_or(M::Bad);
                complete(m, 0, &mut stack, &mut anchors, &mut root);
            }
            Ev::SeqStart(aid, _) => stack.push(Open::Seq(vec![], *aid)),
            Ev::MapStart(aid, _) => stack.push(Open::Map(vec![], *aid)),
            Ev::SeqEnd => match stack.pop() {
                Some(Open::Seq(v, aid)) => complete(M::Seq(v), aid, &mut stack, &mut anchors, &mut root),
                _ => return Err("SequenceEnd without open sequence".into()),
            },
            Ev::MapEnd => match stack.pop() {
                Some(Open::Map(v, aid)) => complete(M::Map(pair_up(v, last_position)), aid, &mut stack, &mut anchors, &mut root),
                _ => return Err("MappingEnd without open mapping".into()),
            },
        }
    }
    Ok(docs)
}
