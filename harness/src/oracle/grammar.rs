//! R2 — pushdown recogniser for the YAML event grammar, in prefix mode.
//!
//! stream   := StreamStart document* StreamEnd
//! document := DocumentStart node DocumentEnd
//! node     := Scalar | Alias | SequenceStart node* SequenceEnd | MappingStart (node node)* MappingEnd
//!
//! Anchor rules: ids are positive, no two anchored nodes of a document share one, every alias
//! carries an id that was handed out earlier in the stream.

use crate::drive::Ev;
use std::collections::HashSet;

#[derive(Clone, Copy, PartialEq, Eq, Debug)]
enum Frame {
    Seq,
    /// number of nodes seen so far
    Map(usize),
}

#[derive(Clone, Copy, PartialEq, Eq, Debug)]
enum St {
    BeforeStream,
    BetweenDocs,
    /// DocumentStart seen, root node not yet
    DocNeedNode,
    InNode,
    /// root node complete, waiting DocumentEnd
    DocNeedEnd,
    Done,
}

pub struct Grammar {
    st: St,
    stack: Vec<Frame>,
    doc_anchors: HashSet<usize>,
    stream_anchors: HashSet<usize>,
    pub docs: usize,
}

impl Default for Grammar {
    fn default() -> Self {
        Self::new()
    }
}

impl Grammar {
    pub fn new() -> Grammar {
        Grammar { st: St::BeforeStream, stack: vec![], doc_anchors: HashSet::new(), stream_anchors: HashSet::new(), docs: 0 }
    }

    fn anchor(&mut self, id: usize) -> Result<(), String> {
        if id == 0 {
            return Ok(());
        }
        if !self.doc_anchors.insert(id) {
            return Err(format!("anchor id {id} used by two anchored nodes of one document"));
        }
        self.stream_anchors.insert(id);
        Ok(())
    }

    fn node_done(&mut self) {
        match self.stack.last_mut() {
            None => self.st = St::DocNeedEnd,
            Some(Frame::Seq) => {}
            Some(Frame::Map(n)) => *n += 1,
        }
    }

    fn begin_node(&mut self) -> Result<(), String> {
        match self.st {
            St::DocNeedNode => {
                self.st = St::InNode;
                Ok(())
            }
            St::InNode if !self.stack.is_empty() => Ok(()),
            s => Err(format!("a node event in state {s:?}")),
        }
    }

    /// Feed one event; Err describes why the sequence so far is not a prefix of a sentence.
    pub fn feed(&mut self, ev: &Ev) -> Result<(), String> {
        match ev {
            Ev::Nothing => Err("Event::Nothing delivered".into()),
            Ev::StreamStart => {
                if self.st == St::BeforeStream {
                    self.st = St::BetweenDocs;
                    Ok(())
                } else {
                    Err(format!("StreamStart in state {:?}", self.st))
                }
            }
            Ev::StreamEnd => {
                if self.st == St::BetweenDocs {
                    self.st = St::Done;
                    Ok(())
                } else {
                    Err(format!("StreamEnd in state {:?}", self.st))
                }
            }
            Ev::DocStart(_) => {
                if self.st == St::BetweenDocs {
                    self.st = St::DocNeedNode;
                    self.doc_anchors.clear();
                    Ok(())
                } else {
                    Err(format!("DocumentStart in state {:?}", self.st))
                }
            }
            Ev::DocEnd => {
                if self.st == St::DocNeedEnd {
                    self.st = St::BetweenDocs;
                    self.docs += 1;
                    Ok(())
                } else {
                    Err(format!("DocumentEnd in state {:?} (a document holds exactly one node)", self.st))
                }
            }
            Ev::Scalar { aid, .. } => {
                self.begin_node()?;
                self.anchor(*aid)?;
                self.node_done();
                Ok(())
            }
            Ev::Alias(id) => {
                self.begin_node()?;
                if *id == 0 {
                    return Err("alias with id 0".into());
                }
                if !self.stream_anchors.contains(id) {
                    return Err(format!("alias id {id} was never handed out earlier in the stream"));
                }
                self.node_done();
                Ok(())
            }
            Ev::SeqStart(aid, _) => {
                self.begin_node()?;
                self.anchor(*aid)?;
                self.stack.push(Frame::Seq);
                Ok(())
            }
            Ev::MapStart(aid, _) => {
                self.begin_node()?;
                self.anchor(*aid)?;
                self.stack.push(Frame::Map(0));
                Ok(())
            }
            Ev::SeqEnd => match self.stack.last() {
                Some(Frame::Seq) if self.st == St::InNode => {
                    self.stack.pop();
                    self.node_done();
                    Ok(())
                }
                other => Err(format!("SequenceEnd with open frame {other:?} in state {:?}", self.st)),
            },
            Ev::MapEnd => match self.stack.last() {
                Some(Frame::Map(n)) if self.st == St::InNode => {
                    if n % 2 != 0 {
                        return Err(format!("MappingEnd after an odd number of nodes ({n})"));
                    }
                    self.stack.pop();
                    self.node_done();
                    Ok(())
                }
                other => Err(format!("MappingEnd with open frame {other:?} in state {:?}", self.st)),
            },
        }
    }

    pub fn complete(&self) -> bool {
        self.st == St::Done
    }
}

/// Check a delivered event list: prefix always; whole sentence when `complete` is required.
pub fn check_events(evs: &[Ev], require_complete: bool) -> Result<(), String> {
    let mut g = Grammar::new();
    for (i, e) in evs.iter().enumerate() {
        g.feed(e).map_err(|m| format!("event #{i} {}: {m}", e.short()))?;
    }
    if require_complete && !g.complete() {
        return Err(format!("parse reported no error but the sentence is incomplete (state {:?})", g.st));
    }
    Ok(())
}
