//! Case runner, block/worker protocol, known findings, evidence and replay (DESIGN §2).

use serde_json::{json, Value};
use std::cell::RefCell;
use std::collections::{BTreeMap, HashSet};
use std::hash::{Hash, Hasher};
use std::io::Write;
use std::panic::{catch_unwind, AssertUnwindSafe};

#[derive(Clone, Copy, PartialEq, Eq, Debug)]
pub enum Tier {
    Quick,
    Thorough,
}

impl Tier {
    pub fn name(self) -> &'static str {
        match self {
            Tier::Quick => "quick",
            Tier::Thorough => "thorough",
        }
    }
    pub fn parse(s: &str) -> Tier {
        if s == "thorough" {
            Tier::Thorough
        } else {
            Tier::Quick
        }
    }
    /// pick by tier
    pub fn pick<T>(self, quick: T, thorough: T) -> T {
        match self {
            Tier::Quick => quick,
            Tier::Thorough => thorough,
        }
    }
}

/// A property failure on one case.
#[derive(Clone, Debug)]
pub struct Fail {
    /// short stable class of the failure (used for de-duplication and for finding signatures)
    pub category: String,
    /// free text: expected vs observed
    pub detail: String,
}

impl Fail {
    pub fn new(category: &str, detail: impl Into<String>) -> Fail {
        Fail { category: category.to_string(), detail: detail.into() }
    }
}

pub type CheckResult = Result<(), Fail>;

#[macro_export]
macro_rules! fail {
    ($cat:expr, $($arg:tt)*) => {
        return Err($crate::engine::Fail::new($cat, format!($($arg)*)))
    };
}

#[macro_export]
macro_rules! ensure {
    ($cond:expr, $cat:expr, $($arg:tt)*) => {
        if !($cond) {
            return Err($crate::engine::Fail::new($cat, format!($($arg)*)));
        }
    };
}

/// One stream of cases of a property: a generator × a configuration, cut into blocks.
#[derive(Clone, Debug)]
pub struct StreamSpec {
    pub name: String,
    pub blocks: u64,
    /// exhaustive streams enumerate a finite space completely (reported in the evidence)
    pub exhaustive: bool,
    /// human description for the evidence file
    pub what: String,
}

impl StreamSpec {
    pub fn new(name: &str, blocks: u64, exhaustive: bool, what: &str) -> StreamSpec {
        StreamSpec { name: name.to_string(), blocks: blocks.max(1), exhaustive, what: what.to_string() }
    }
}

#[derive(Clone, Debug)]
pub struct FailureRec {
    pub stream: String,
    pub block: u64,
    pub category: String,
    pub detail: String,
    pub case: Value,
}

#[derive(Default)]
pub struct BlockStats {
    pub evaluations: u64,
    pub nontrivial: HashSet<u64>,
    pub classes: BTreeMap<String, u64>,
    pub samples: Vec<Value>,
    pub known_hits: BTreeMap<String, u64>,
    pub excluded: u64,
    /// maxima of named measures (e.g. input calls per char)
    pub maxima: BTreeMap<String, f64>,
}

/// Per-case annotations made by a check.
#[derive(Default)]
pub struct CaseInfo {
    pub nontrivial: Option<u64>,
    pub classes: Vec<&'static str>,
    pub maxima: Vec<(&'static str, f64)>,
}

impl CaseInfo {
    pub fn nontrivial<T: Hash + ?Sized>(&mut self, key: &T) {
        self.nontrivial = Some(hash64(key));
    }
    pub fn class(&mut self, c: &'static str) {
        self.classes.push(c);
    }
    pub fn class_if(&mut self, cond: bool, c: &'static str) {
        if cond {
            self.classes.push(c);
        }
    }
    pub fn max(&mut self, name: &'static str, v: f64) {
        self.maxima.push((name, v));
    }
}

pub fn hash64<T: Hash + ?Sized>(t: &T) -> u64 {
    // FNV-1a through the Hasher interface: deterministic across runs and processes.
    struct Fnv(u64);
    impl Hasher for Fnv {
        fn finish(&self) -> u64 {
            self.0
        }
        fn write(&mut self, bytes: &[u8]) {
            for b in bytes {
                self.0 ^= *b as u64;
                self.0 = self.0.wrapping_mul(0x100000001b3);
            }
        }
    }
    let mut h = Fnv(0xcbf29ce484222325);
    t.hash(&mut h);
    let mut x = h.finish();
    // final avalanche
    x ^= x >> 33;
    x = x.wrapping_mul(0xff51afd7ed558ccd);
    x ^= x >> 33;
    x
}

pub fn mix_seed(seed: u64, prop: &str, stream: &str, block: u64) -> u64 {
    hash64(&(seed, prop, stream, block))
}

pub fn seed_bytes(seed: u64) -> [u8; 32] {
    let mut out = [0u8; 32];
    let mut x = seed;
    for chunk in out.chunks_mut(8) {
        x = x.wrapping_mul(0x9E3779B97F4A7C15).wrapping_add(0xD1B54A32D192ED03);
        let mut z = x;
        z = (z ^ (z >> 30)).wrapping_mul(0xBF58476D1CE4E5B9);
        z = (z ^ (z >> 27)).wrapping_mul(0x94D049BB133111EB);
        z ^= z >> 31;
        chunk.copy_from_slice(&z.to_le_bytes());
    }
    out
}

thread_local! {
    static LAST_PANIC: RefCell<String> = RefCell::new(String::new());
}

/// Private payload used by the counting input wrapper to abort a parse that exceeded its work bound.
pub struct WorkBoundExceeded(pub u64);

pub fn install_quiet_panic_hook() {
    std::panic::set_hook(Box::new(|info| {
        let loc = info.location().map(|l| format!("{}:{}", l.file(), l.line())).unwrap_or_default();
        let msg = if let Some(s) = info.payload().downcast_ref::<&str>() {
            (*s).to_string()
        } else if let Some(s) = info.payload().downcast_ref::<String>() {
            s.clone()
        } else if info.payload().downcast_ref::<WorkBoundExceeded>().is_some() {
            "work bound exceeded".to_string()
        } else {
            "<non-string panic payload>".to_string()
        };
        LAST_PANIC.with(|p| *p.borrow_mut() = format!("{msg} @ {loc}"));
    }));
}

/// Run `f`, turning a panic into a `Fail` with category "panic" (or "work-bound").
pub fn guarded<R>(f: impl FnOnce() -> Result<R, Fail>) -> Result<R, Fail> {
    match catch_unwind(AssertUnwindSafe(f)) {
        Ok(r) => r,
        Err(payload) => {
            if let Some(w) = payload.downcast_ref::<WorkBoundExceeded>() {
                return Err(Fail::new("work-bound", format!("input calls exceeded the linear bound: {} calls", w.0)));
            }
            let msg = LAST_PANIC.with(|p| p.borrow().clone());
            Err(Fail::new("panic", msg))
        }
    }
}

/// Run `f` and report (panicked?, message) without converting to Fail; used where a panic is the
/// *expected* behaviour (C20 indexing).
pub fn panics<R>(f: impl FnOnce() -> R) -> Result<R, String> {
    match catch_unwind(AssertUnwindSafe(f)) {
        Ok(r) => Ok(r),
        Err(_) => Err(LAST_PANIC.with(|p| p.borrow().clone())),
    }
}

// ------------------------------------------------------------------------------------------------
// Known findings
// ------------------------------------------------------------------------------------------------

#[derive(Clone, Debug)]
pub struct KnownEntry {
    pub id: String,
    pub property: String,
    pub status: String,
    pub predicate: String,
    pub witness: String,
    pub what: String,
}

#[derive(Default, Clone)]
pub struct Known {
    pub entries: Vec<KnownEntry>,
}

impl Known {
    pub fn load(root: &str) -> Known {
        let path = format!("{root}/known_findings.json");
        let mut k = Known::default();
        let Ok(text) = std::fs::read_to_string(&path) else { return k };
        let v: Value = serde_json::from_str(&text).expect("known_findings.json is not valid JSON");
        for e in v.as_array().expect("known_findings.json must be a list") {
            // lines of the form {"fixed": "..."} are documentation only
            let Some(id) = e.get("id").and_then(|x| x.as_str()) else { continue };
            k.entries.push(KnownEntry {
                id: id.to_string(),
                property: e["property"].as_str().unwrap_or("").to_string(),
                status: e["status"].as_str().unwrap_or("open").to_string(),
                predicate: e["predicate"].as_str().unwrap_or("").to_string(),
                witness: e["witness"].as_str().unwrap_or("").to_string(),
                what: e["what"].as_str().unwrap_or("").to_string(),
            });
        }
        k
    }

    /// Does this failure match an *open* finding of this property? A fixed entry suppresses nothing.
    pub fn match_open(&self, prop: &str, case: &Value, fail: &Fail) -> Option<String> {
        for e in &self.entries {
            if e.property == prop && e.status == "open" && crate::known::predicate(&e.predicate, case, fail) {
                return Some(e.id.clone());
            }
        }
        None
    }

    pub fn open_for(&self, prop: &str) -> Vec<KnownEntry> {
        self.entries.iter().filter(|e| e.property == prop && e.status == "open").cloned().collect()
    }
}

// ------------------------------------------------------------------------------------------------
// Block context
// ------------------------------------------------------------------------------------------------

pub struct Ctx {
    pub prop: &'static str,
    pub tier: Tier,
    pub seed: u64,
    pub stream: String,
    pub block: u64,
    pub stats: BlockStats,
    pub failures: Vec<FailureRec>,
    pub known: Known,
    /// set while proptest is shrinking: cases are evaluated but no longer counted
    pub frozen: bool,
    /// strict mode (replay): known findings are not filtered
    pub strict: bool,
    pub trace: Option<std::fs::File>,
    pub max_samples: usize,
    pub max_failures: usize,
    pub per_category: usize,
}

impl Ctx {
    pub fn new(prop: &'static str, tier: Tier, seed: u64, stream: &str, block: u64, known: Known) -> Ctx {
        Ctx {
            prop,
            tier,
            seed,
            stream: stream.to_string(),
            block,
            stats: BlockStats::default(),
            failures: vec![],
            known,
            frozen: false,
            strict: false,
            trace: None,
            max_samples: 3,
            max_failures: 6,
            per_category: 2,
        }
    }

    pub fn block_seed(&self) -> u64 {
        mix_seed(self.seed, self.prop, &self.stream, self.block)
    }

    /// Evaluate one case. `case_json` is only called when needed (trace, sample, failure).
    /// Returns Err only for failures that are *not* open known findings.
    pub fn eval(
        &mut self,
        case_json: &dyn Fn() -> Value,
        check: impl FnOnce(&mut CaseInfo) -> CheckResult,
    ) -> CheckResult {
        if let Some(t) = self.trace.as_mut() {
            let _ = writeln!(t, "{}", case_json());
            let _ = t.flush();
        }
        let mut info = CaseInfo::default();
        let res = guarded(|| check(&mut info));
        if !self.frozen {
            self.stats.evaluations += 1;
            for c in &info.classes {
                *self.stats.classes.entry((*c).to_string()).or_insert(0) += 1;
            }
            for (n, v) in &info.maxima {
                let e = self.stats.maxima.entry((*n).to_string()).or_insert(*v);
                if *v > *e {
                    *e = *v;
                }
            }
            if let Some(h) = info.nontrivial {
                if self.stats.nontrivial.insert(h) && self.stats.samples.len() < self.max_samples {
                    self.stats.samples.push(case_json());
                }
            }
        }
        match res {
            Ok(()) => Ok(()),
            Err(f) => {
                if !self.strict {
                    if let Some(id) = self.known.match_open(self.prop, &case_json(), &f) {
                        if !self.frozen {
                            *self.stats.known_hits.entry(id).or_insert(0) += 1;
                        }
                        return Ok(());
                    }
                }
                Err(f)
            }
        }
    }

    /// Record a failure (bounded per category so one defect does not flood the report).
    pub fn record(&mut self, case: Value, f: &Fail) {
        let same = self.failures.iter().filter(|r| r.category == f.category).count();
        if same >= self.per_category || self.failures.len() >= self.max_failures {
            return;
        }
        self.failures.push(FailureRec {
            stream: self.stream.clone(),
            block: self.block,
            category: f.category.clone(),
            detail: f.detail.clone(),
            case,
        });
    }

    pub fn excluded(&mut self, n: u64) {
        if !self.frozen {
            self.stats.excluded += n;
        }
    }

    pub fn to_json(&self) -> Value {
        let s = &self.stats;
        json!({
            "stream": self.stream, "block": self.block,
            "evaluations": s.evaluations,
            "nontrivial_count": s.nontrivial.len(),
            "classes": s.classes, "samples": s.samples, "known_hits": s.known_hits,
            "excluded": s.excluded, "maxima": s.maxima,
            "failures": self.failures.iter().map(|f| json!({
                "stream": f.stream, "block": f.block, "category": f.category,
                "detail": f.detail, "case": f.case})).collect::<Vec<_>>(),
        })
    }
}

// ------------------------------------------------------------------------------------------------
// proptest glue
// ------------------------------------------------------------------------------------------------

use proptest::strategy::{Strategy, ValueTree};
use proptest::test_runner::{Config, RngAlgorithm, TestCaseError, TestError, TestRng, TestRunner};

/// Run `cases` generated cases of `strategy` through `check`; on failure proptest shrinks, the
/// shrunk case is handed to `post` (deterministic extra shrinking) and recorded.
pub fn run_proptest<S, F, J>(ctx: &mut Ctx, strategy: S, cases: u32, to_json: J, mut check: F)
where
    S: Strategy,
    S::Value: Clone + std::fmt::Debug,
    F: FnMut(&mut Ctx, &S::Value) -> CheckResult,
    J: Fn(&S::Value) -> Value,
{
    let cfg = Config {
        cases,
        failure_persistence: None,
        max_shrink_iters: 4000,
        max_global_rejects: 1_000_000,
        ..Config::default()
    };
    let rng = TestRng::from_seed(RngAlgorithm::ChaCha, &seed_bytes(ctx.block_seed()));
    let mut runner = TestRunner::new_with_rng(cfg, rng);
    let ctx_cell = RefCell::new(ctx);
    let check_cell = RefCell::new(&mut check);
    let result = runner.run(&strategy, |value| {
        let mut ctx = ctx_cell.borrow_mut();
        let mut chk = check_cell.borrow_mut();
        match (*chk)(&mut **ctx, &value) {
            Ok(()) => Ok(()),
            Err(f) => {
                ctx.frozen = true;
                Err(TestCaseError::fail(f.category))
            }
        }
    });
    let ctx = ctx_cell.into_inner();
    match result {
        Ok(()) => {}
        Err(TestError::Fail(_, value)) => {
            // re-evaluate the shrunk case to obtain the failure text
            ctx.frozen = true;
            let r = check(ctx, &value);
            ctx.frozen = false;
            match r {
                Err(f) => ctx.record(to_json(&value), &f),
                Ok(()) => ctx.record(
                    to_json(&value),
                    &Fail::new("unstable", "shrunk case did not fail again on re-evaluation"),
                ),
            }
        }
        Err(TestError::Abort(reason)) => {
            ctx.record(json!({"abort": reason.to_string()}), &Fail::new("generator-abort", reason.to_string()));
        }
    }
    ctx.frozen = false;
}

/// Generate a single value from a strategy with a given seed (used for sampling without a runner).
pub fn sample_one<S: Strategy>(strategy: &S, seed: u64) -> S::Value {
    let rng = TestRng::from_seed(RngAlgorithm::ChaCha, &seed_bytes(seed));
    let mut runner = TestRunner::new_with_rng(Config::default(), rng);
    strategy.new_tree(&mut runner).unwrap().current()
}

// ------------------------------------------------------------------------------------------------
// Deterministic text shrinking
// ------------------------------------------------------------------------------------------------

/// Delete lines, then characters, while `still_fails` holds; bounded number of evaluations.
pub fn shrink_text(input: &str, mut still_fails: impl FnMut(&str) -> bool) -> String {
    let mut budget = 2000usize;
    let mut cur: Vec<char> = input.chars().collect();
    // lines
    loop {
        let mut progress = false;
        let s: String = cur.iter().collect();
        let lines: Vec<&str> = s.split_inclusive('\n').collect();
        if lines.len() > 1 {
            for i in 0..lines.len() {
                if budget == 0 {
                    break;
                }
                budget -= 1;
                let cand: String = lines.iter().enumerate().filter(|(j, _)| *j != i).map(|(_, l)| *l).collect();
                if still_fails(&cand) {
                    cur = cand.chars().collect();
                    progress = true;
                    break;
                }
            }
        }
        if !progress || budget == 0 {
            break;
        }
    }
    // chunks of characters, halving
    let mut chunk = (cur.len() / 2).max(1);
    while chunk >= 1 && budget > 0 {
        let mut i = 0;
        let mut progress = false;
        while i < cur.len() && budget > 0 {
            let end = (i + chunk).min(cur.len());
            let cand: String = cur[..i].iter().chain(cur[end..].iter()).collect();
            budget -= 1;
            if still_fails(&cand) {
                cur = cand.chars().collect();
                progress = true;
            } else {
                i += chunk;
            }
        }
        if chunk == 1 && !progress {
            break;
        }
        if !progress {
            chunk /= 2;
        }
    }
    cur.into_iter().collect()
}

pub fn hex(bytes: &[u8]) -> String {
    bytes.iter().map(|b| format!("{b:02x}")).collect()
}

pub fn unhex(s: &str) -> Vec<u8> {
    (0..s.len() / 2).map(|i| u8::from_str_radix(&s[2 * i..2 * i + 2], 16).unwrap_or(0)).collect()
}

/// JSON for a text input: the text itself plus its UTF-8 bytes in hex (robust against editors).
pub fn text_case(input: &str) -> Value {
    json!({"input": input, "input_hex": hex(input.as_bytes())})
}

pub fn case_text(case: &Value) -> String {
    if let Some(h) = case.get("input_hex").and_then(|x| x.as_str()) {
        if let Ok(s) = String::from_utf8(unhex(h)) {
            return s;
        }
    }
    case.get("input").and_then(|x| x.as_str()).unwrap_or("").to_string()
}


/// Decode fuzzer bytes into a value of `strategy`: proptest's pass-through RNG hands the bytes to
/// the strategy as its random stream, so every proptest generator is also a structure-aware
/// libFuzzer decoder.
///
/// Two things make that work. (1) Every fork of the pass-through RNG halves the window of bytes the
/// parent may still read, and proptest's unions (prop_oneof!, option::of, prop_recursive) fork once
/// per alternative they keep in reserve for shrinking; after a handful of unions the window is
/// empty. The generators that are decoded here are therefore built from `oneof!` / `recursive`
/// below, which do not fork while `decoding()` is on. (2) An exhausted pass-through RNG yields zeros
/// for ever, on which rand's rejection sampling never terminates; a fixed pseudo-random tail behind
/// the data, and a budget of union picks per case, keep the stream alive.
pub fn from_bytes<S: Strategy>(strategy: &S, data: &[u8]) -> Option<S::Value> {
    if data.is_empty() {
        return None;
    }
    static TAIL: std::sync::OnceLock<Vec<u8>> = std::sync::OnceLock::new();
    let tail = TAIL.get_or_init(|| {
        let mut t = Vec::with_capacity(TAIL_BYTES);
        let mut x = 0x5DEECE66D_u64;
        while t.len() < TAIL_BYTES {
            x = x.wrapping_mul(0x9E3779B97F4A7C15).wrapping_add(0xD1B54A32D192ED03);
            let mut z = x;
            z = (z ^ (z >> 30)).wrapping_mul(0xBF58476D1CE4E5B9);
            z ^= z >> 27;
            t.extend_from_slice(&z.to_le_bytes());
        }
        t
    });
    let mut buf = Vec::with_capacity(data.len() + tail.len());
    buf.extend_from_slice(data);
    buf.extend_from_slice(tail);
    let rng = TestRng::from_seed(RngAlgorithm::PassThrough, &buf);
    let mut runner = TestRunner::new_with_rng(Config { failure_persistence: None, ..Config::default() }, rng);
    with_decoding(|| strategy.new_tree(&mut runner).ok().map(|t| t.current()))
}

/// Length of the pseudo-random tail behind the fuzzer's bytes, and the number of union picks after
/// which a decoded union always takes its first (simplest) arm: the two together keep a decoded
/// case from ever reaching the end of the tail (a pick's own leaves read at most ~1 KiB).
const TAIL_BYTES: usize = 1 << 19;
const PICK_BUDGET: u32 = 400;

thread_local! {
    static DECODING: std::cell::Cell<bool> = const { std::cell::Cell::new(false) };
    static PICKS: std::cell::Cell<u32> = const { std::cell::Cell::new(0) };
}

pub fn with_decoding<R>(f: impl FnOnce() -> R) -> R {
    PICKS.with(|p| p.set(0));
    DECODING.with(|d| d.set(true));
    let r = f();
    DECODING.with(|d| d.set(false));
    r
}

pub fn decoding() -> bool {
    DECODING.with(|d| d.get())
}

type BoxTree<T> = Box<dyn ValueTree<Value = T>>;

/// Weighted union. Under the seeded RNGs of the harness tiers it is proptest's own `Union` (which
/// can shrink towards earlier alternatives); while decoding fuzzer bytes it picks one alternative
/// without forking the RNG.
pub struct OneOf<T: std::fmt::Debug + 'static> {
    arms: Vec<(u32, proptest::strategy::BoxedStrategy<T>)>,
    union: proptest::strategy::Union<proptest::strategy::BoxedStrategy<T>>,
}

impl<T: std::fmt::Debug + 'static> OneOf<T> {
    pub fn new(arms: Vec<(u32, proptest::strategy::BoxedStrategy<T>)>) -> Self {
        let union = proptest::strategy::Union::new_weighted(arms.clone());
        OneOf { arms, union }
    }
}

impl<T: std::fmt::Debug + 'static> std::fmt::Debug for OneOf<T> {
    fn fmt(&self, f: &mut std::fmt::Formatter<'_>) -> std::fmt::Result {
        write!(f, "OneOf({} arms)", self.arms.len())
    }
}

impl<T: std::fmt::Debug + 'static> Strategy for OneOf<T> {
    type Tree = BoxTree<T>;
    type Value = T;
    fn new_tree(&self, runner: &mut TestRunner) -> proptest::strategy::NewTree<Self> {
        if !decoding() {
            return Ok(Box::new(self.union.new_tree(runner)?));
        }
        use proptest::prelude::RngCore;
        let total: u64 = self.arms.iter().map(|(w, _)| *w as u64).sum();
        // one byte per choice keeps the fuzzer's mutations local
        let mut b = [0u8; 2];
        runner.rng().fill_bytes(&mut b);
        let mut pick = (u16::from_le_bytes(b) as u64 * total) >> 16;
        let used = PICKS.with(|p| {
            p.set(p.get() + 1);
            p.get()
        });
        if used > PICK_BUDGET {
            return self.arms[0].1.new_tree(runner);
        }
        for (w, s) in &self.arms {
            if pick < *w as u64 {
                return s.new_tree(runner);
            }
            pick -= *w as u64;
        }
        self.arms[self.arms.len() - 1].1.new_tree(runner)
    }
}

/// One strategy for the harness tiers, another (fork-free) while decoding fuzzer bytes.
pub struct Switch<T: std::fmt::Debug + 'static> {
    pub normal: proptest::strategy::BoxedStrategy<T>,
    pub decode: proptest::strategy::BoxedStrategy<T>,
}

impl<T: std::fmt::Debug + 'static> std::fmt::Debug for Switch<T> {
    fn fmt(&self, f: &mut std::fmt::Formatter<'_>) -> std::fmt::Result {
        write!(f, "Switch")
    }
}

impl<T: std::fmt::Debug + 'static> Strategy for Switch<T> {
    type Tree = BoxTree<T>;
    type Value = T;
    fn new_tree(&self, runner: &mut TestRunner) -> proptest::strategy::NewTree<Self> {
        if decoding() {
            self.decode.new_tree(runner)
        } else {
            self.normal.new_tree(runner)
        }
    }
}

/// `prop_recursive` for the harness tiers; an explicit depth-bounded recursion built from
/// fork-free unions while decoding.
pub fn recursive<T, R, F>(leaf: proptest::strategy::BoxedStrategy<T>, depth: u32, desired_size: u32, expected_branch_size: u32, recurse: F) -> Switch<T>
where
    T: std::fmt::Debug + 'static,
    R: Strategy<Value = T> + 'static,
    F: Fn(proptest::strategy::BoxedStrategy<T>) -> R + 'static + Clone,
{
    let normal = leaf.clone().prop_recursive(depth, desired_size, expected_branch_size, recurse.clone()).boxed();
    let mut s = leaf.clone();
    for _ in 0..depth {
        s = OneOf::new(vec![(1, leaf.clone()), (2, recurse(s).boxed())]).boxed();
    }
    Switch { normal, decode: s }
}

/// `any::<f64>()` (which is a union of float classes, and forks) for the harness tiers; all bit
/// patterns while decoding.
pub fn any_f64() -> Switch<f64> {
    use proptest::prelude::any;
    Switch { normal: any::<f64>().boxed(), decode: any::<u64>().prop_map(f64::from_bits).boxed() }
}

/// Drop-in for `prop_oneof!` (same syntax) producing a [`OneOf`].
#[macro_export]
macro_rules! oneof {
    ($($w:expr => $s:expr),+ $(,)?) => {
        $crate::engine::OneOf::new(vec![$(($w as u32, proptest::strategy::Strategy::boxed($s))),+])
    };
    ($($s:expr),+ $(,)?) => {
        $crate::engine::OneOf::new(vec![$((1u32, proptest::strategy::Strategy::boxed($s))),+])
    };
}
