//! C10 — all input back-ends behave identically.

use super::Property;
use crate::drive::{parse_with, Backend, Ev};
use crate::engine::{case_text, text_case, CaseInfo, CheckResult, Ctx, StreamSpec, Tier};
use crate::gen::{self, TextPlan};
use crate::fail;
use saphyr_parser::ScalarStyle;
use serde_json::Value;

pub struct C10P;
pub static C10: C10P = C10P;

fn plan(tier: Tier) -> TextPlan {
    gen::plan(tier, 1.0)
        .with_exh(tier.pick(vec![("yaml24", 4), ("mb12", 5)], vec![("yaml24", 5), ("mb12", 6), ("core14", 6)]))
        .with_deepblock(tier.pick(60_000, 1_000_000))
}

pub fn check_input(info: &mut CaseInfo, input: &str) -> CheckResult {
    let reference = parse_with(Backend::Str, input);
    for b in &Backend::ALL6[1..] {
        let o = parse_with(*b, input);
        if o != reference {
            // find the first difference for the report
            let n = reference.events.len().min(o.events.len());
            let mut at = n;
            for i in 0..n {
                if reference.events[i] != o.events[i] {
                    at = i;
                    break;
                }
            }
            let cat = if reference.evs() != o.evs() {
                "events-differ"
            } else if reference.events != o.events {
                "spans-differ"
            } else {
                "error-differs"
            };
            fail!(
                cat,
                "str vs {} differ at event #{at}: str={:?} err={:?} | {}={:?} err={:?}",
                b.name(),
                reference.events.get(at),
                reference.error,
                b.name(),
                o.events.get(at),
                o.error
            );
        }
    }
    let base = reference.events.len() >= 4 || reference.error.as_ref().map(|e| e.mark.index > 0).unwrap_or(false);
    let fast_path = !input.is_ascii()
        || input.contains('#')
        || reference.events.iter().any(|(e, _)| match e {
            Ev::Scalar { style, v, .. } => matches!(style, ScalarStyle::Literal | ScalarStyle::Folded) || v.chars().count() > 14,
            _ => false,
        });
    if base && fast_path {
        info.nontrivial(input);
    }
    info.class_if(!input.is_ascii(), "multibyte");
    info.class_if(reference.error.is_none(), "accepted");
    Ok(())
}

impl Property for C10P {
    fn id(&self) -> &'static str {
        "C10"
    }
    fn rule(&self) -> String {
        "C01's input spaces plus an exhaustive scope over a 12-symbol alphabet with CR and 2-/3-byte characters and block scalars \
         under indentation 0..140. Each input is pulled through StrInput, BufferedInput and TestInput<8,16,64,128> (a \
         contract-conforming Input written for the harness; it panics on out-of-buffer access like BufferedInput); the (event, span) \
         lists and the first ScanError (info, index, line, col) must be identical. Non-trivial = (>= 4 events or error at index > 0) \
         and (non-ASCII char, comment, block scalar or a scalar longer than 14 chars present); distinct by input hash."
            .into()
    }
    fn assumptions(&self) -> Vec<String> {
        vec!["custom inputs have capacity >= 8 (the scanner requests 8 characters for \\U escapes)".into()]
    }
    fn streams(&self, tier: Tier) -> Vec<StreamSpec> {
        plan(tier).streams()
    }
    fn run_block(&self, ctx: &mut Ctx, stream: &str, block: u64) {
        plan(ctx.tier).run_block(ctx, stream, block, &|info, s| check_input(info, s));
    }
    fn replay(&self, ctx: &mut Ctx, case: &Value) -> CheckResult {
        let s = case_text(case);
        ctx.eval(&|| text_case(&s), |info| check_input(info, &s))
    }
}
