//! C17 — pull, peek and push interfaces tell the same story.

use super::Property;
use crate::drive::{event_bound, parse_with, push_all, push_per_doc, Backend, Ev, Outcome, PErr, Sp};
use crate::engine::{case_text, hash64, CaseInfo, CheckResult, Ctx, StreamSpec, Tier};
use crate::gen::{self, ExhIter, TextPlan};
use crate::{ensure, fail, with_parser};
use saphyr_parser::{Input, Parser};
use serde_json::{json, Value};

pub struct C17P;
pub static C17: C17P = C17P;

fn plan(tier: Tier) -> TextPlan {
    gen::plan(tier, tier.pick(0.5, 1.0))
}

/// One observed step of a history.
#[derive(Clone, Debug, PartialEq, Eq)]
enum Obs {
    None,
    Ev(Ev, Sp),
    Err(PErr),
}

fn obs_next<T: Input>(p: &mut Parser<'_, T>) -> Obs {
    match p.next() {
        None => Obs::None,
        Some(Ok((e, s))) => Obs::Ev(Ev::from_event(&e), Sp::from_span(&s)),
        Some(Err(e)) => Obs::Err(PErr::from_err(&e)),
    }
}

fn obs_peek<T: Input>(p: &mut Parser<'_, T>) -> Obs {
    match p.peek() {
        None => Obs::None,
        Some(Ok((e, s))) => Obs::Ev(Ev::from_event(e), Sp::from_span(s)),
        Some(Err(e)) => Obs::Err(PErr::from_err(&e)),
    }
}

/// Model: E = plain iteration (events, then the first error if any). `peeks[i]` = number of peeks
/// before the i-th `next`. Returns Err(description) on the first disagreement.
fn run_history<T: Input>(p: &mut Parser<'_, T>, e: &Outcome, peeks: &[u8], extra_after_end: bool) -> Result<(), String> {
    let expected = |i: usize| -> Obs {
        if i < e.events.len() {
            Obs::Ev(e.events[i].0.clone(), e.events[i].1)
        } else if let Some(err) = &e.error {
            Obs::Err(err.clone())
        } else {
            Obs::None
        }
    };
    let total = e.events.len() + usize::from(e.error.is_some());
    for i in 0..total {
        let want = expected(i);
        let k = peeks.get(i).copied().unwrap_or(0);
        for j in 0..k {
            let got = obs_peek(p);
            if got != want {
                return Err(format!("peek #{j} at position {i}: got {got:?}, plain iteration gives {want:?}"));
            }
            if matches!(got, Obs::Err(_)) {
                return Ok(()); // the history ends at the first error (I4)
            }
        }
        let got = obs_next(p);
        if got != want {
            return Err(format!("next at position {i} (after {k} peeks): got {got:?}, plain iteration gives {want:?}"));
        }
        if matches!(got, Obs::Err(_)) {
            return Ok(());
        }
    }
    if e.error.is_none() && extra_after_end {
        // after StreamEnd has been returned: next and peek return nothing
        for j in 0..3 {
            let a = obs_peek(p);
            if a != Obs::None {
                return Err(format!("peek #{j} after StreamEnd returned {a:?}"));
            }
            let b = obs_next(p);
            if b != Obs::None {
                return Err(format!("next #{j} after StreamEnd returned {b:?}"));
            }
        }
    }
    Ok(())
}

fn histories_sampled(n: usize, seed: u64) -> Vec<Vec<u8>> {
    let mut v = vec![vec![0u8; n], vec![1u8; n], vec![2u8; n]];
    // one peeking position at a time
    for i in 0..n.min(24) {
        for k in 1..=2u8 {
            let mut h = vec![0u8; n];
            h[i] = k;
            v.push(h);
        }
    }
    // pseudo-random histories derived from the input hash (deterministic)
    let mut x = seed | 1;
    for _ in 0..8 {
        let mut h = vec![0u8; n];
        for d in h.iter_mut() {
            x ^= x << 13;
            x ^= x >> 7;
            x ^= x << 17;
            *d = (x % 3) as u8;
        }
        v.push(h);
    }
    v
}

/// all histories over {0,1,2}^n
fn histories_all(n: usize) -> Vec<Vec<u8>> {
    let mut v = vec![];
    let total = 3usize.pow(n as u32);
    for mut c in 0..total {
        let mut h = vec![0u8; n];
        for d in h.iter_mut() {
            *d = (c % 3) as u8;
            c /= 3;
        }
        v.push(h);
    }
    v
}

/// all histories with at most 3 peeking positions
fn histories_upto3(n: usize) -> Vec<Vec<u8>> {
    let mut v = vec![vec![0u8; n]];
    for a in 0..n {
        for ka in 1..=2u8 {
            let mut h = vec![0u8; n];
            h[a] = ka;
            v.push(h.clone());
            for b in a + 1..n {
                for kb in 1..=2u8 {
                    let mut h2 = h.clone();
                    h2[b] = kb;
                    v.push(h2.clone());
                    for c in b + 1..n {
                        for kc in 1..=2u8 {
                            let mut h3 = h2.clone();
                            h3[c] = kc;
                            v.push(h3);
                        }
                    }
                }
            }
        }
    }
    v
}

pub fn check_input(info: &mut CaseInfo, input: &str, exhaustive_histories: bool) -> CheckResult {
    let maxev = event_bound(input.chars().count());
    for b in [Backend::Str, Backend::Buffered] {
        let e = parse_with(b, input);
        ensure!(!e.event_bound_hit, "event-bound", "event bound exceeded");
        let n = e.events.len() + usize::from(e.error.is_some());
        let hs = if exhaustive_histories && n <= 8 {
            info.class("hist-all-3^n");
            histories_all(n)
        } else if exhaustive_histories && n <= 12 {
            info.class("hist-upto3-positions");
            histories_upto3(n)
        } else {
            if exhaustive_histories {
                info.class("hist-sampled(long stream)");
            }
            histories_sampled(n, hash64(input))
        };
        if b == Backend::Buffered && !exhaustive_histories && hs.len() > 16 {
            // second back-end: a lighter sample
        }
        for (hi, h) in hs.iter().enumerate() {
            if b == Backend::Buffered && !exhaustive_histories && hi >= 12 {
                break;
            }
            let r = with_parser!(b, input, |p| run_history(&mut p, &e, h, true));
            if let Err(m) = r {
                fail!("history", "{}: history {:?}: {m}", b.name(), h);
            }
        }
        // push, all documents
        let o = with_parser!(b, input, |p| push_all(&mut p, maxev));
        if o.events != e.events || o.error != e.error {
            let n = o.events.len().min(e.events.len());
            let at = (0..n).find(|i| o.events[*i] != e.events[*i]).unwrap_or(n);
            fail!(
                "push-differs",
                "{}: load(multi=true) differs from iteration at #{at}: push={:?} err={:?} | pull={:?} err={:?}",
                b.name(),
                o.events.get(at),
                o.error,
                e.events.get(at),
                e.error
            );
        }
        // push, one document per call
        let (o, calls) = with_parser!(b, input, |p| push_per_doc(&mut p, maxev));
        if o.events != e.events || o.error != e.error {
            let n = o.events.len().min(e.events.len());
            let at = (0..n).find(|i| o.events[*i] != e.events[*i]).unwrap_or(n);
            fail!(
                "push-per-doc-differs",
                "{}: {calls} load(multi=false) calls differ from iteration at #{at}: push={:?} err={:?} (total {}) | pull={:?} err={:?} (total {})",
                b.name(),
                o.events.get(at),
                o.error,
                o.events.len(),
                e.events.get(at),
                e.error,
                e.events.len()
            );
        }
        // the same three interfaces with the keep_tags option on (it changes what a later document
        // sees of earlier %TAG directives, on every interface alike)
        if input.contains('%') {
            info.class("keep_tags pass");
            let ek = with_parser!(b, input, |p| {
                let mut p = p.keep_tags(true);
                crate::drive::pull_all(&mut p, maxev)
            });
            let ok = with_parser!(b, input, |p| {
                let mut p = p.keep_tags(true);
                push_all(&mut p, maxev)
            });
            if ok.events != ek.events || ok.error != ek.error {
                let n = ok.events.len().min(ek.events.len());
                let at = (0..n).find(|i| ok.events[*i] != ek.events[*i]).unwrap_or(n);
                fail!(
                    "push-differs-keep-tags",
                    "{}: keep_tags(true): load(multi=true) differs from iteration at #{at}: push={:?} err={:?} | pull={:?} err={:?}",
                    b.name(),
                    ok.events.get(at),
                    ok.error,
                    ek.events.get(at),
                    ek.error
                );
            }
            let (od, calls) = with_parser!(b, input, |p| {
                let mut p = p.keep_tags(true);
                push_per_doc(&mut p, maxev)
            });
            if od.events != ek.events || od.error != ek.error {
                fail!("push-per-doc-differs-keep-tags", "{}: keep_tags(true): {calls} load(multi=false) calls deliver {} events / {:?}, iteration {} / {:?}", b.name(), od.events.len(), od.error, ek.events.len(), ek.error);
            }
            let nk = ek.events.len() + usize::from(ek.error.is_some());
            for h in histories_sampled(nk, hash64(input)).iter().take(6) {
                let r = with_parser!(b, input, |p| {
                    let mut p = p.keep_tags(true);
                    run_history(&mut p, &ek, h, true)
                });
                if let Err(m) = r {
                    fail!("history-keep-tags", "{}: keep_tags(true): history {:?}: {m}", b.name(), h);
                }
            }
        }
        if b == Backend::Str {
            let docs = e.events.iter().filter(|(x, _)| matches!(x, Ev::DocStart(_))).count();
            let alias = e.events.iter().any(|(x, _)| matches!(x, Ev::Alias(_)));
            if e.events.len() >= 6 || docs >= 2 || alias {
                info.nontrivial(input);
            }
            info.class_if(docs >= 2, "multi-doc");
            info.class_if(alias, "alias");
            info.class_if(e.error.is_some(), "error");
        }
    }
    Ok(())
}

fn hist_exh_len(tier: Tier) -> u32 {
    tier.pick(3, 4)
}
const HIST_BLOCK: u64 = 4000;

impl Property for C17P {
    fn id(&self) -> &'static str {
        "C17"
    }
    fn rule(&self) -> String {
        "C01's input spaces on StrInput and BufferedInput. Model: E = events (+ first error) of plain iteration, a cursor; next \
         returns E[i] and advances, peek returns E[i] and does not; after StreamEnd both return None (3 extra calls); a history ends at \
         the first error. Histories (peek count 0..2 before each next): per input 3 uniform + every single peeking position + 8 \
         hash-derived ones; in the 'hist' streams (all strings up to the stated length, corpus) exhaustively 3^n for streams of <= 8 \
         events and every history with <= 3 peeking positions for 9..12 events. Push: load(multi=true) and repeated load(multi=false) \
         must deliver exactly E's (event, span) list and error; inputs containing '%' are put through the same comparison again with keep_tags(true) on every interface. Deeply nested documents (200..600 levels) are part of the input space. Non-trivial = >= 6 events or >= 2 documents or an alias; distinct by input hash."
            .into()
    }
    fn assumptions(&self) -> Vec<String> {
        vec!["behaviour after the first error is unspecified (I4): histories stop there".into()]
    }
    fn streams(&self, tier: Tier) -> Vec<StreamSpec> {
        let mut v = plan(tier).streams();
        let total = gen::exh_total(24, hist_exh_len(tier));
        v.push(StreamSpec::new(
            "hist-exh",
            total.div_ceil(HIST_BLOCK),
            true,
            &format!("exhaustive peek/next histories on every string of length <= {} over yaml24 ({total} inputs)", hist_exh_len(tier)),
        ));
        v.push(StreamSpec::new("hist-corpus", 8, true, "exhaustive / <=3-position peek histories on the corpus and golden documents"));
        v
    }
    fn run_block(&self, ctx: &mut Ctx, stream: &str, block: u64) {
        match stream {
            "hist-exh" => {
                let lo = block * HIST_BLOCK;
                for s in ExhIter::new(gen::SIGMA_YAML24, hist_exh_len(ctx.tier), lo, lo + HIST_BLOCK) {
                    let check = |info: &mut CaseInfo, s: &str| check_input(info, s, true);
                    if let Err(f) = gen::eval_text(ctx, &check, &s) {
                        gen::fail_text(ctx, &check, &s, f);
                    }
                }
            }
            "hist-corpus" => {
                let docs = gen::seed_docs();
                for (i, s) in docs.iter().enumerate() {
                    if i as u64 % 8 != block {
                        continue;
                    }
                    let check = |info: &mut CaseInfo, s: &str| check_input(info, s, true);
                    if let Err(f) = gen::eval_text(ctx, &check, s) {
                        gen::fail_text(ctx, &check, s, f);
                    }
                }
            }
            _ => plan(ctx.tier).run_block(ctx, stream, block, &|info, s| check_input(info, s, false)),
        }
    }
    fn replay(&self, ctx: &mut Ctx, case: &Value) -> CheckResult {
        let s = case_text(case);
        ctx.eval(&|| json!({"input": s}), |info| check_input(info, &s, true))
    }
}
