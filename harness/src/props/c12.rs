//! C12 — reported positions are true positions in the input.

use super::Property;
use crate::drive::{parse_with, Backend, Ev, Mk, Outcome, Sp};
use crate::engine::{case_text, text_case, CaseInfo, CheckResult, Ctx, StreamSpec, Tier};
use crate::gen::{self, TextPlan};
use crate::oracle::pos::PosTable;
use crate::{ensure, fail};
use saphyr::{LoadableYamlNode, MarkedYaml, MarkedYamlOwned, YamlData, YamlDataOwned};
use saphyr_parser::ScalarStyle;
use serde_json::Value;

pub struct C12P;
pub static C12: C12P = C12P;

fn plan(tier: Tier) -> TextPlan {
    gen::plan(tier, 1.0)
        .with_exh(tier.pick(vec![("yaml24", 4), ("mb12", 5)], vec![("yaml24", 5), ("mb12", 6)]))
        .with_deepblock(tier.pick(30_000, 300_000))
}

fn check_marker(t: &PosTable, what: &str, m: &Mk) -> CheckResult {
    ensure!(m.index <= t.len(), "index-out-of-input", "{what}: index {} > input length {}", m.index, t.len());
    // `\0` is the Input contract's end-of-input sentinel: the input ends, for the scanner, at the
    // first NUL, and positions at or after it fall under "at the end" (I6)
    let end = t.chars.iter().position(|c| *c == '\0').unwrap_or(t.len());
    if m.index < end {
        // a position on the LF of a CR LF pair is inside one break: exempt (ambiguous)
        if t.chars[m.index] == '\n' && m.index > 0 && t.chars[m.index - 1] == '\r' {
            return Ok(());
        }
        let (l, c) = t.at(m.index).unwrap();
        ensure!(
            (m.line, m.col) == (l, c),
            "linecol-wrong",
            "{what}: index {} reported as line {} col {}, counting gives line {l} col {c}",
            m.index,
            m.line,
            m.col
        );
    }
    Ok(())
}

/// index of the closing quote of a quoted scalar starting at `open`, by lexing the source
fn closing_quote(t: &PosTable, open: usize, double: bool) -> Option<usize> {
    let c = &t.chars;
    let mut i = open + 1;
    while i < c.len() {
        if double {
            if c[i] == '\\' {
                i += 2;
                continue;
            }
            if c[i] == '"' {
                return Some(i);
            }
        } else if c[i] == '\'' {
            if i + 1 < c.len() && c[i + 1] == '\'' {
                i += 2;
                continue;
            }
            return Some(i);
        }
        i += 1;
    }
    None
}

pub fn check_outcome(info: &mut CaseInfo, t: &PosTable, o: &Outcome, who: &str) -> CheckResult {
    // stack of collection start indices
    let mut stack: Vec<usize> = vec![];
    for (i, (ev, sp)) in o.events.iter().enumerate() {
        let what = format!("{who} event #{i} {}", ev.short());
        check_marker(t, &format!("{what} start"), &sp.start)?;
        check_marker(t, &format!("{what} end"), &sp.end)?;
        ensure!(sp.start.index <= sp.end.index, "start-after-end", "{what}: span starts at {} after its end {}", sp.start.index, sp.end.index);
        let is_node = matches!(ev, Ev::Scalar { .. } | Ev::Alias(_) | Ev::SeqStart(..) | Ev::MapStart(..));
        if is_node {
            if let Some(parent) = stack.last() {
                ensure!(sp.start.index >= *parent, "child-before-parent", "{what}: starts at {} before its parent collection at {parent}", sp.start.index);
            }
        }
        match ev {
            Ev::SeqStart(..) | Ev::MapStart(..) => stack.push(sp.start.index),
            Ev::SeqEnd | Ev::MapEnd => {
                if let Some(start) = stack.pop() {
                    ensure!(sp.end.index >= start, "collection-ends-before-start", "{what}: ends at {} before its start {start}", sp.end.index);
                }
            }
            Ev::Scalar { v, style: ScalarStyle::Plain, .. } if v == "~" && t.slice(sp.start.index, sp.end.index) != "~" => {
                // synthesised null for an omitted node: it borrows the span of the next token (I5)
                info.class("synthesised-null");
            }
            Ev::Scalar { v, style: ScalarStyle::Plain, .. } if !v.is_empty() => {
                let vc: Vec<char> = v.chars().collect();
                let s = sp.start.index;
                let mut k = 0;
                while k < vc.len() && s + k < t.len() && t.chars[s + k] == vc[k] {
                    k += 1;
                }
                if k == vc.len() {
                    info.class("plain-one-line");
                    ensure!(
                        sp.end.index == s + k,
                        "plain-span-extent",
                        "{what}: one-line plain scalar of {} chars at {s} has span end {} (slice {:?})",
                        k,
                        sp.end.index,
                        t.slice(s, sp.end.index)
                    );
                } else if v == "~" {
                    // synthesised null for an omitted node (I5)
                } else {
                    // multi-line (folded) plain scalar: the first divergence must be at a blank or break
                    let ok = s + k < t.len() && matches!(t.chars[s + k], ' ' | '\t' | '\n' | '\r');
                    ensure!(ok, "plain-span-start", "{what}: source at span start {s} is {:?}, not the scalar's text", t.slice(s, s + vc.len().min(12)));
                }
            }
            Ev::Scalar { style, .. } if matches!(style, ScalarStyle::SingleQuoted | ScalarStyle::DoubleQuoted) => {
                let q = if *style == ScalarStyle::DoubleQuoted { '"' } else { '\'' };
                let s = sp.start.index;
                ensure!(s < t.len() && t.chars[s] == q, "quoted-span-start", "{what}: span start {s} is not at the opening quote (source {:?})", t.slice(s, s + 6));
                if let Some(close) = closing_quote(t, s, q == '"') {
                    ensure!(sp.end.index > close, "quoted-span-end", "{what}: span end {} does not contain the closing quote at {close}", sp.end.index);
                    info.class("quoted");
                }
            }
            _ => {}
        }
    }
    if let Some(e) = &o.error {
        check_marker(t, &format!("{who} error '{}'", e.info), &e.mark)?;
        let want = format!("line {} column {}", e.mark.line, e.mark.col + 1);
        ensure!(e.display.ends_with(&want), "error-display", "{who}: Display {:?} does not end with {want:?}", e.display);
        ensure!(e.display.starts_with(&e.info), "error-display", "{who}: Display {:?} does not start with the info {:?}", e.display, e.info);
    }
    Ok(())
}

// --- marked nodes -----------------------------------------------------------------------------

pub enum MNode<'a, 'i> {
    B(&'a MarkedYaml<'i>),
    O(&'a MarkedYamlOwned),
}

impl<'a, 'i> MNode<'a, 'i> {
    fn span(&self) -> Sp {
        match self {
            MNode::B(n) => Sp::from_span(&n.span),
            MNode::O(n) => Sp::from_span(&n.span),
        }
    }
    fn seq(&self) -> Option<Vec<MNode<'a, 'i>>> {
        match self {
            MNode::B(n) => match &n.data {
                YamlData::Sequence(v) => Some(v.iter().map(MNode::B).collect()),
                _ => None,
            },
            MNode::O(n) => match &n.data {
                YamlDataOwned::Sequence(v) => Some(v.iter().map(MNode::O).collect()),
                _ => None,
            },
        }
    }
    fn map(&self) -> Option<Vec<(MNode<'a, 'i>, MNode<'a, 'i>)>> {
        match self {
            MNode::B(n) => match &n.data {
                YamlData::Mapping(m) => Some(m.iter().map(|(k, v)| (MNode::B(k), MNode::B(v))).collect()),
                _ => None,
            },
            MNode::O(n) => match &n.data {
                YamlDataOwned::Mapping(m) => Some(m.iter().map(|(k, v)| (MNode::O(k), MNode::O(v))).collect()),
                _ => None,
            },
        }
    }
}

/// skip the events of one node starting at idx; returns index after it
fn skip_node(evs: &[(Ev, Sp)], mut idx: usize) -> usize {
    let mut depth = 0usize;
    while idx < evs.len() {
        match evs[idx].0 {
            Ev::SeqStart(..) | Ev::MapStart(..) => depth += 1,
            Ev::SeqEnd | Ev::MapEnd => depth -= 1,
            _ => {}
        }
        idx += 1;
        if depth == 0 {
            break;
        }
    }
    idx
}

/// Walk a marked node and the event list together: node span == span of the creating event.
fn walk(info: &mut CaseInfo, node: &MNode, evs: &[(Ev, Sp)], idx: &mut usize, who: &str) -> CheckResult {
    let (ev, sp) = &evs[*idx];
    let here = *idx;
    let nsp = node.span();
    ensure!(nsp == *sp, "marked-span", "{who}: node created by event #{here} {} has span {:?}, the event has {:?}", ev.short(), nsp, sp);
    match ev {
        Ev::Scalar { .. } | Ev::Alias(_) => {
            *idx += 1;
            Ok(())
        }
        Ev::SeqStart(..) => {
            let Some(items) = node.seq() else { fail!("marked-shape", "{who}: event #{here} is a sequence start but the node is not a sequence") };
            *idx += 1;
            for it in &items {
                ensure!(!matches!(evs[*idx].0, Ev::SeqEnd), "marked-shape", "{who}: sequence node has more items than events");
                walk(info, it, evs, idx, who)?;
            }
            ensure!(matches!(evs[*idx].0, Ev::SeqEnd), "marked-shape", "{who}: sequence node has fewer items than events");
            *idx += 1;
            Ok(())
        }
        Ev::MapStart(..) => {
            let Some(pairs) = node.map() else { fail!("marked-shape", "{who}: event #{here} is a mapping start but the node is not a mapping") };
            // count event pairs
            let mut j = *idx + 1;
            let mut n = 0;
            while !matches!(evs[j].0, Ev::MapEnd) {
                j = skip_node(evs, j);
                j = skip_node(evs, j);
                n += 1;
            }
            if n != pairs.len() {
                // duplicate keys collapsed (C07's subject): positions cannot be paired up
                info.class("marked-dup-keys-skipped");
                *idx = j + 1;
                return Ok(());
            }
            *idx += 1;
            for (k, v) in &pairs {
                walk(info, k, evs, idx, who)?;
                walk(info, v, evs, idx, who)?;
            }
            *idx += 1;
            Ok(())
        }
        _ => fail!("marked-shape", "{who}: unexpected event #{here} {}", ev.short()),
    }
}

fn check_marked(info: &mut CaseInfo, o: &Outcome, docs: Vec<MNode>, who: &str) -> CheckResult {
    let evs = &o.events;
    let mut idx = 0;
    let mut d = 0;
    while idx < evs.len() {
        match evs[idx].0 {
            Ev::DocStart(_) => {
                idx += 1;
                ensure!(d < docs.len(), "marked-shape", "{who}: fewer documents than DocumentStart events");
                walk(info, &docs[d], evs, &mut idx, who)?;
                d += 1;
            }
            _ => idx += 1,
        }
    }
    ensure!(d == docs.len(), "marked-shape", "{who}: {} documents loaded, {d} in the event stream", docs.len());
    Ok(())
}

pub fn check_input(info: &mut CaseInfo, input: &str) -> CheckResult {
    let t = PosTable::new(input);
    let mut first = None;
    for b in [Backend::Str, Backend::Buffered] {
        let o = parse_with(b, input);
        check_outcome(info, &t, &o, &b.name())?;
        if first.is_none() {
            first = Some(o);
        }
    }
    let o = first.unwrap();
    if o.error.is_none() {
        // MarkedYaml / MarkedYamlOwned go through BufferedInput (load_from_str)
        let ob = parse_with(Backend::Buffered, input);
        if let Ok(docs) = MarkedYaml::load_from_str(input) {
            check_marked(info, &ob, docs.iter().map(MNode::B).collect(), "MarkedYaml")?;
            info.class("marked-checked");
        }
        if let Ok(docs) = MarkedYamlOwned::load_from_str(input) {
            check_marked(info, &ob, docs.iter().map(MNode::O).collect(), "MarkedYamlOwned")?;
        }
        // the same nodes loaded with deferred scalar resolution and resolved afterwards: resolving a
        // node does not create it, so it still carries the span of its event
        {
            use saphyr::{AnnotatedNode, AnnotatedNodeOwned, YamlLoader};
            let mut loader = YamlLoader::<MarkedYaml>::default();
            loader.early_parse(false);
            if saphyr_parser::Parser::new_from_str(input).load(&mut loader, true).is_ok() {
                let mut docs = loader.into_documents();
                for d in docs.iter_mut() {
                    AnnotatedNode::parse_representation_recursive(d);
                }
                check_marked(info, &o, docs.iter().map(MNode::B).collect(), "MarkedYaml (deferred, then resolved)")?;
            }
            let mut loader = YamlLoader::<MarkedYamlOwned>::default();
            loader.early_parse(false);
            if saphyr_parser::Parser::new_from_str(input).load(&mut loader, true).is_ok() {
                let mut docs = loader.into_documents();
                for d in docs.iter_mut() {
                    AnnotatedNodeOwned::parse_representation_recursive(d);
                }
                check_marked(info, &o, docs.iter().map(MNode::O).collect(), "MarkedYamlOwned (deferred, then resolved)")?;
            }
        }
    }
    let lines = input.contains('\n') || input.contains('\r');
    let nodes = o.events.iter().any(|(e, _)| matches!(e, Ev::Scalar { .. } | Ev::SeqStart(..) | Ev::MapStart(..)));
    if (lines || !input.is_ascii() || input.contains('#')) && nodes {
        info.nontrivial(input);
    }
    info.class_if(o.error.is_some(), "error");
    info.class_if(!input.is_ascii(), "multibyte");
    Ok(())
}

impl Property for C12P {
    fn id(&self) -> &'static str {
        "C12"
    }
    fn rule(&self) -> String {
        "C01's input spaces plus an exhaustive scope with CR and multi-byte characters and deeply indented block scalars, on StrInput \
         and BufferedInput. For every span endpoint and error marker: index <= chars and, when index < chars, (line, col) equals an \
         independent count of LF / lone CR / CRLF breaks and characters; start <= end; a node starts no earlier than its parent \
         collection; a collection ends no earlier than it starts; one-line plain scalars cover exactly their text; quoted scalars \
         start at the opening quote and contain the closing quote (found by lexing the source); ScanError's Display ends with \
         'line L column C+1'; MarkedYaml / MarkedYamlOwned nodes — loaded eagerly, and loaded with deferred resolution and then resolved — carry the span of their creating event (tree and events walked \
         together). Non-trivial = (>= 2 lines or multi-byte char or comment) and >= 1 node; distinct by input hash."
            .into()
    }
    fn assumptions(&self) -> Vec<String> {
        vec![
            "a plain scalar with value '~' whose source is not '~' is a synthesised null and exempt from 'covers its text' (I5)".into(),
            "markers at index == input length are exempt from the line/col equation (I6); a NUL character is the Input contract's end-of-input sentinel, so the input ends at the first NUL for this purpose".into(),
            "a marker on the LF of a CR LF pair is exempt (inside one break)".into(),
            "block-scalar span extent is not pinned by the statement".into(),
        ]
    }
    fn streams(&self, tier: Tier) -> Vec<StreamSpec> {
        plan(tier).streams()
    }
    fn run_block(&self, ctx: &mut Ctx, stream: &str, block: u64) {
        plan(ctx.tier).run_block(ctx, stream, block, &|info, s| check_input(info, s));
    }
    fn replay(&self, ctx: &mut Ctx, case: &Value) -> CheckResult {
        let s = case_text(case);
        ctx.eval(&|| text_case(&s), |info| check_input(info, &s))
    }
}
