//! C16 — tags resolve through the directives in force for their document.

use super::Property;
use crate::drive::{pull_all, Ev, Outcome};
use crate::engine::{CaseInfo, CheckResult, Ctx, StreamSpec, Tier};
use crate::{ensure, fail};
use proptest::prelude::*;
use saphyr_parser::Parser;
use serde_json::{json, Value};

pub struct C16P;
pub static C16: C16P = C16P;

pub const HANDLES: &[&str] = &["!", "!!", "!e!", "!f!", "!a-b!"];
pub const PREFIXES: &[&str] = &["tag:e.example,2000:", "!p-", "tag:yaml.org,2002:", "tag:x.example:app/", "!", "tag:x_y.example:"];
pub const NAMES: &[&str] = &["x", "foo-bar", "str", "a%21b", "e%C3%A9", "%E4%B8%AD", "%F0%9F%98%80z", "x%20y", "%41", "caf%c3%a9", "n1", "my_type", "a.b_c", "_u", "x/y;z=1~*'()"];
pub const URIS: &[&str] = &["tag:v.example:x", "!local", "tag:yaml.org,2002:str", "x:y/z?q=1", "tag:v.example:my_type", "urn:a_b:c-d"];
pub const DEFAULT_SECONDARY: &str = "tag:yaml.org,2002:";

#[derive(Clone, Debug)]
pub enum TagUse {
    None,
    NonSpecific,
    Local(usize),
    Secondary(usize),
    Named(usize, usize),
    Verbatim(usize),
}

#[derive(Clone, Debug)]
pub struct NodeSpec {
    pub tag: TagUse,
    pub shape: u8,
}

#[derive(Clone, Debug)]
pub struct DocSpec {
    /// position of a %YAML line among the %TAG lines (None = absent)
    pub yaml_pos: Option<usize>,
    pub tags: Vec<(usize, usize)>,
    pub reserved: bool,
    pub root_tag: TagUse,
    pub flow_root: bool,
    pub nodes: Vec<NodeSpec>,
    /// a later document without directives may be written bare after a `...` line
    pub bare: bool,
    /// no blank between a tag and a following `,` / `]` in flow context
    pub tight: bool,
}

/// percent-decoding: octets, then UTF-8
pub fn percent_decode(s: &str) -> Option<String> {
    let b = s.as_bytes();
    let mut out = vec![];
    let mut i = 0;
    while i < b.len() {
        if b[i] == b'%' {
            let h = std::str::from_utf8(b.get(i + 1..i + 3)?).ok()?;
            out.push(u8::from_str_radix(h, 16).ok()?);
            i += 3;
        } else {
            out.push(b[i]);
            i += 1;
        }
    }
    String::from_utf8(out).ok()
}

fn tag_text(t: &TagUse) -> String {
    match t {
        TagUse::None => String::new(),
        TagUse::NonSpecific => "!".into(),
        TagUse::Local(n) => format!("!{}", NAMES[*n]),
        TagUse::Secondary(n) => format!("!!{}", NAMES[*n]),
        TagUse::Named(h, n) => format!("{}{}", HANDLES[2 + *h % 3], NAMES[*n]),
        TagUse::Verbatim(u) => format!("!<{}>", URIS[*u]),
    }
}

pub fn render(docs: &[DocSpec]) -> String {
    let mut out = String::new();
    for (k, d) in docs.iter().enumerate() {
        let has_directives = !d.tags.is_empty() || d.yaml_pos.is_some() || d.reserved;
        let bare = d.bare && k > 0 && !has_directives;
        if k > 0 && (has_directives || bare) {
            out.push_str("...\n");
        }
        let mut lines: Vec<String> = d.tags.iter().map(|(h, p)| format!("%TAG {} {}", HANDLES[*h], PREFIXES[*p])).collect();
        if let Some(pos) = d.yaml_pos {
            lines.insert(pos.min(lines.len()), "%YAML 1.2".to_string());
        }
        if d.reserved {
            lines.push("%RESERVED directive".to_string());
        }
        for l in lines {
            out.push_str(&l);
            out.push('\n');
        }
        if !bare {
            out.push_str("---");
        }
        let rt = tag_text(&d.root_tag);
        if d.flow_root {
            if !rt.is_empty() {
                if !bare {
                    out.push(' ');
                }
                out.push_str(&rt);
            }
            out.push_str(if bare && rt.is_empty() { "[" } else { " [" });
            for (i, n) in d.nodes.iter().enumerate() {
                if i > 0 {
                    out.push_str(", ");
                }
                let t = tag_text(&n.tag);
                out.push_str(&t);
                let sep = if t.is_empty() { "" } else { " " };
                match n.shape % 5 {
                    0 => out.push_str(&format!("{sep}v{i}")),
                    1 => out.push_str(if t.is_empty() { "null" } else if d.tight { "" } else { " " }),
                    2 => out.push_str(&format!("{sep}[a, b]")),
                    3 => out.push_str(&format!("{sep}{{k: v}}")),
                    _ => out.push_str(&format!("{sep}\"q{i}\"")),
                }
            }
            out.push_str("]\n");
        } else {
            if !rt.is_empty() {
                if !bare {
                    out.push(' ');
                }
                out.push_str(&rt);
            }
            if !(bare && rt.is_empty()) {
                out.push('\n');
            }
            for (i, n) in d.nodes.iter().enumerate() {
                out.push('-');
                let t = tag_text(&n.tag);
                if !t.is_empty() {
                    out.push(' ');
                    out.push_str(&t);
                }
                match n.shape % 6 {
                    0 => out.push_str(&format!(" v{i}\n")),
                    1 => out.push_str(if t.is_empty() { " ~\n" } else { "\n" }),
                    2 => out.push_str(" [a, b]\n"),
                    3 => out.push_str(" {k: v}\n"),
                    4 => out.push_str("\n  k: v\n"),
                    _ => out.push_str(&format!(" 'q{i}'\n")),
                }
            }
        }
    }
    out
}

/// The expected tags of the node events in order, or None if the stream must be rejected.
pub fn expected(docs: &[DocSpec], keep_tags: bool) -> Option<Vec<Option<String>>> {
    let mut out = vec![];
    let mut table: Vec<(String, String)> = vec![];
    for d in docs {
        if !keep_tags {
            table.clear();
        }
        // a handle may be declared only once per document
        let mut seen: Vec<&str> = vec![];
        for (h, p) in &d.tags {
            if seen.contains(&HANDLES[*h]) {
                return None;
            }
            seen.push(HANDLES[*h]);
            table.retain(|(k, _)| k != HANDLES[*h]);
            table.push((HANDLES[*h].to_string(), PREFIXES[*p].to_string()));
        }
        let lookup = |h: &str| table.iter().find(|(k, _)| k == h).map(|(_, p)| p.clone());
        let resolve = |t: &TagUse| -> Result<Option<String>, ()> {
            Ok(match t {
                TagUse::None => None,
                TagUse::NonSpecific => Some("!".to_string()),
                TagUse::Local(n) => Some(format!("{}{}", lookup("!").unwrap_or_else(|| "!".into()), percent_decode(NAMES[*n]).unwrap())),
                TagUse::Secondary(n) => Some(format!("{}{}", lookup("!!").unwrap_or_else(|| DEFAULT_SECONDARY.into()), percent_decode(NAMES[*n]).unwrap())),
                TagUse::Named(h, n) => match lookup(HANDLES[2 + *h % 3]) {
                    Some(p) => Some(format!("{p}{}", percent_decode(NAMES[*n]).unwrap())),
                    None => return Err(()),
                },
                TagUse::Verbatim(u) => Some(URIS[*u].to_string()),
            })
        };
        // root collection
        match resolve(&d.root_tag) {
            Ok(t) => out.push(t),
            Err(()) => return None,
        }
        let flow = d.flow_root;
        for n in &d.nodes {
            let t = match resolve(&n.tag) {
                Ok(t) => t,
                Err(()) => return None,
            };
            out.push(t);
            let shape = if flow { n.shape % 5 } else { n.shape % 6 };
            // children of the nested collections are untagged
            match shape {
                2 => out.extend([None, None]),
                3 => out.extend([None, None]),
                4 if !flow => out.extend([None, None]),
                _ => {}
            }
        }
    }
    Some(out)
}

fn node_tags(o: &Outcome) -> Vec<Option<String>> {
    o.events
        .iter()
        .filter_map(|(e, _)| match e {
            Ev::Scalar { tag, .. } | Ev::SeqStart(_, tag) | Ev::MapStart(_, tag) => Some(tag.as_ref().map(|(h, s)| format!("{h}{s}"))),
            _ => None,
        })
        .collect()
}

pub fn check(info: &mut CaseInfo, docs: &[DocSpec], keep_tags: bool) -> CheckResult {
    let text = render(docs);
    let want = expected(docs, keep_tags);
    let o_str = {
        let mut p = Parser::new_from_str(&text).keep_tags(keep_tags);
        pull_all(&mut p, 100_000)
    };
    let o_buf = {
        let mut p = Parser::new_from_iter(text.chars()).keep_tags(keep_tags);
        pull_all(&mut p, 100_000)
    };
    for (who, o) in [("str", &o_str), ("buffered", &o_buf)] {
        match &want {
            None => ensure!(
                o.error.is_some(),
                "accepts-undeclared-or-duplicate",
                "{who} keep_tags={keep_tags}: a duplicate or undeclared handle must be an error, but the stream was accepted; text: {text:?}"
            ),
            Some(w) => {
                if let Some(e) = &o.error {
                    fail!("rejects-valid-tags", "{who} keep_tags={keep_tags}: {}; text: {text:?}", e.display);
                }
                let got = node_tags(o);
                if got != *w {
                    let n = got.len().min(w.len());
                    let at = (0..n).find(|i| got[*i] != w[*i]).unwrap_or(n);
                    fail!("tag-differs", "{who} keep_tags={keep_tags}: node #{at} has tag {:?}, expected {:?}; text: {text:?}", got.get(at), w.get(at));
                }
            }
        }
    }
    let many_directives = docs.iter().any(|d| d.tags.len() >= 2);
    let escapes = text.contains('%') && docs.iter().any(|d| d.nodes.iter().any(|n| matches!(&n.tag, TagUse::Local(i) | TagUse::Secondary(i) | TagUse::Named(_, i) if NAMES[*i].contains('%'))));
    if many_directives || escapes || docs.len() >= 2 {
        info.nontrivial(&(text.as_str(), keep_tags));
    }
    info.class_if(want.is_none(), "expected-error");
    info.class_if(want.is_some(), "expected-ok");
    info.class_if(escapes, "percent-escape");
    info.class_if(many_directives, ">=2 %TAG in a document");
    info.class_if(keep_tags, "keep_tags");
    info.class_if(docs.iter().any(|d| d.yaml_pos.is_some() && !d.tags.is_empty()), "%YAML among %TAG");
    Ok(())
}

fn tag_use() -> impl Strategy<Value = TagUse> {
    crate::oneof![
        2 => Just(TagUse::None),
        1 => Just(TagUse::NonSpecific),
        3 => (0..NAMES.len()).prop_map(TagUse::Local),
        3 => (0..NAMES.len()).prop_map(TagUse::Secondary),
        1 => (0usize..3, 0..NAMES.len()).prop_map(|(h, n)| TagUse::Named(h, n)),
        2 => (0..URIS.len()).prop_map(TagUse::Verbatim),
    ]
}

pub fn doc_spec() -> impl Strategy<Value = DocSpec> {
    (
        crate::oneof![7 => Just(None), 3 => (0usize..4).prop_map(Some)],
        proptest::collection::vec((0..HANDLES.len(), 0..PREFIXES.len()), 0..4),
        any::<bool>(),
        proptest::bool::weighted(0.15),
        tag_use(),
        proptest::bool::weighted(0.3),
        proptest::collection::vec((tag_use(), 0u8..30).prop_map(|(tag, shape)| NodeSpec { tag, shape }), 1..5),
        proptest::bool::weighted(0.3),
        any::<bool>(),
    )
        .prop_map(|(yaml_pos, mut tags, dedup, reserved, root_tag, flow_root, nodes, bare, tight)| {
            if dedup {
                // half of the documents declare each handle at most once
                let mut seen = vec![];
                tags.retain(|(h, _)| {
                    let fresh = !seen.contains(h);
                    seen.push(*h);
                    fresh
                });
            }
            DocSpec { yaml_pos, tags, reserved, root_tag, flow_root, nodes, bare, tight }
        })
}

/// Remove the situations the property leaves open: with keep_tags a later document never
/// re-declares a handle declared earlier (I7).
pub fn normalise(mut docs: Vec<DocSpec>, keep_tags: bool) -> Vec<DocSpec> {
    if keep_tags {
        let mut declared: Vec<usize> = vec![];
        for d in docs.iter_mut() {
            d.tags.retain(|(h, _)| !declared.contains(h));
            for (h, _) in &d.tags {
                declared.push(*h);
            }
        }
    }
    docs
}

pub fn spec_json(docs: &[DocSpec], keep: bool) -> Value {
    let tu = |t: &TagUse| match t {
        TagUse::None => json!(null),
        TagUse::NonSpecific => json!({"k": "ns"}),
        TagUse::Local(n) => json!({"k": "local", "n": n}),
        TagUse::Secondary(n) => json!({"k": "secondary", "n": n}),
        TagUse::Named(h, n) => json!({"k": "named", "h": h, "n": n}),
        TagUse::Verbatim(u) => json!({"k": "verbatim", "n": u}),
    };
    json!({
        "keep_tags": keep,
        "text": render(docs),
        "docs": docs.iter().map(|d| json!({
            "yaml_pos": d.yaml_pos, "tags": d.tags, "reserved": d.reserved, "root_tag": tu(&d.root_tag), "flow_root": d.flow_root, "bare": d.bare, "tight": d.tight,
            "nodes": d.nodes.iter().map(|n| json!({"tag": tu(&n.tag), "shape": n.shape})).collect::<Vec<_>>(),
        })).collect::<Vec<_>>(),
    })
}

fn spec_from_json(v: &Value) -> (Vec<DocSpec>, bool) {
    let tu = |t: &Value| -> TagUse {
        let n = t["n"].as_u64().unwrap_or(0) as usize;
        match t["k"].as_str() {
            Some("ns") => TagUse::NonSpecific,
            Some("local") => TagUse::Local(n),
            Some("secondary") => TagUse::Secondary(n),
            Some("named") => TagUse::Named(t["h"].as_u64().unwrap_or(0) as usize, n),
            Some("verbatim") => TagUse::Verbatim(n),
            _ => TagUse::None,
        }
    };
    let docs = v["docs"]
        .as_array()
        .map(|a| {
            a.iter()
                .map(|d| DocSpec {
                    yaml_pos: d["yaml_pos"].as_u64().map(|x| x as usize),
                    tags: d["tags"].as_array().map(|t| t.iter().map(|p| (p[0].as_u64().unwrap_or(0) as usize, p[1].as_u64().unwrap_or(0) as usize)).collect()).unwrap_or_default(),
                    reserved: d["reserved"].as_bool().unwrap_or(false),
                    root_tag: tu(&d["root_tag"]),
                    flow_root: d["flow_root"].as_bool().unwrap_or(false),
                    bare: d["bare"].as_bool().unwrap_or(false),
                    tight: d["tight"].as_bool().unwrap_or(false),
                    nodes: d["nodes"].as_array().map(|n| n.iter().map(|x| NodeSpec { tag: tu(&x["tag"]), shape: x["shape"].as_u64().unwrap_or(0) as u8 }).collect()).unwrap_or_default(),
                })
                .collect()
        })
        .unwrap_or_default();
    (docs, v["keep_tags"].as_bool().unwrap_or(false))
}

const BLOCK: u64 = 6000;
fn cases(tier: Tier) -> u64 {
    tier.pick(400_000, 2_000_000)
}

impl Property for C16P {
    fn id(&self) -> &'static str {
        "C16"
    }
    fn rule(&self) -> String {
        "Document sequences (1..3) each with 0..3 %TAG lines over handles {!, !!, !e!, !f!, !a-b!} and 5 prefixes (global, local '!p-', \
         the default secondary prefix, a path-like prefix, '!'), an optional %YAML line at any position among them, an optional reserved \
         directive; a tagged or untagged root (block or flow sequence) of 1..4 nodes (plain / quoted scalars, empty nodes, flow \
         sequences and mappings, block mappings) tagged with every spelling: none, '!', '!name', '!!name', '!h!name' (declared or \
         not), '!<uri>'; names include 1- to 4-byte percent escapes. keep_tags on / off (with keep_tags a later document never re-declares \
         an earlier handle, I7). Oracle: an independent resolver (prefix in force + percent-decoded suffix, octets decoded as UTF-8); \
         duplicate handle in a document or undeclared named handle => error; otherwise the handle+suffix of every node event in order. \
         Non-trivial = >= 2 directives in some document, or a percent escape, or >= 2 documents; distinct by (text, keep_tags)."
            .into()
    }
    fn assumptions(&self) -> Vec<String> {
        vec!["tags are compared as handle + suffix strings".into(), "percent escapes are generated in suffixes only, not in prefixes or verbatim tags".into()]
    }
    fn streams(&self, tier: Tier) -> Vec<StreamSpec> {
        vec![StreamSpec::new("tags", cases(tier).div_ceil(BLOCK), false, &format!("{} generated directive / tag scenarios", cases(tier)))]
    }
    fn run_block(&self, ctx: &mut Ctx, _stream: &str, block: u64) {
        let total = cases(ctx.tier);
        let n = (total - (block * BLOCK).min(total)).min(BLOCK) as u32;
        crate::engine::run_proptest(
            ctx,
            (proptest::collection::vec(doc_spec(), 1..4), any::<bool>()),
            n,
            |(d, k)| spec_json(&normalise(d.clone(), *k), *k),
            |ctx, (d, k)| {
                let docs = normalise(d.clone(), *k);
                ctx.eval(&|| spec_json(&docs, *k), |info| check(info, &docs, *k))
            },
        );
    }
    fn replay(&self, ctx: &mut Ctx, case: &Value) -> CheckResult {
        let (docs, keep) = spec_from_json(case);
        ctx.eval(&|| case.clone(), |info| check(info, &docs, keep))
    }
}
