//! C06 — ill-formed YAML is rejected with an error, never silently accepted.

use super::Property;
use crate::drive::{parse_with, Backend};
use crate::engine::{hex, unhex, CaseInfo, CheckResult, Ctx, StreamSpec, Tier};
use crate::gen::corpus;
use crate::model::{gen_stream, render_with_sites, GenCfg, Kind, Site, Stream, Style};
use crate::{ensure, fail};
use proptest::prelude::*;
use serde_json::{json, Value};

pub struct C06P;
pub static C06: C06P = C06P;

pub const OPS: [&str; 15] = [
    "D01-cut-before-closing-quote",
    "D02-cut-before-flow-closer",
    "D03-swap-closer",
    "D04-tab-as-block-indentation",
    "D05-entry-between-parent-and-own-indent",
    "D06-flow-continuation-not-deeper-than-block",
    "D07-quoted-implicit-key-spans-lines",
    "D08-implicit-key-longer-than-1024",
    "D09-second-root-node",
    "D10-bad-escape",
    "D11-alias-without-anchor",
    "D12-undeclared-tag-handle",
    "D13-repeated-yaml-directive",
    "D14-directive-without-document-start",
    "D15-content-after-document-end-marker",
];

/// All damaged texts operator `op` can produce for this rendering; each is ill-formed by the
/// specification whatever the surroundings. The string tags the sub-class.
pub fn damages(op: usize, text: &str, sites: &[Site], stream: &Stream) -> Vec<(String, &'static str)> {
    let mut out: Vec<(String, &'static str)> = vec![];
    let b = text.as_bytes();
    match op {
        0 => {
            for s in sites {
                if let Site::Quoted { close, .. } = s {
                    out.push((text[..*close].to_string(), "quoted"));
                }
            }
        }
        1 => {
            for s in sites {
                if let Site::Closer { pos } = s {
                    out.push((text[..*pos].to_string(), "closer"));
                }
            }
        }
        2 => {
            for s in sites {
                if let Site::Closer { pos } = s {
                    let other = if b[*pos] == b']' { "}" } else { "]" };
                    out.push((format!("{}{}{}", &text[..*pos], other, &text[*pos + 1..]), "swap"));
                    // an extra closer of the other kind in front of the right one
                    out.push((format!("{}{}{}", &text[..*pos], other, &text[*pos..]), "extra-wrong-closer"));
                }
            }
        }
        3 => {
            for s in sites {
                if let Site::EntryLine { line_start, indent, first: true, parent } = s {
                    if *indent >= 1 {
                        // the scanner polices tabs only at columns below the current block indentation
                        let class = if *parent >= 1 { "tab-under-indented-parent" } else { "tab-at-column-0-parent-indent<=0" };
                        out.push((format!("{}\t{}", &text[..*line_start], &text[*line_start + *indent..]), class));
                    }
                }
            }
        }
        4 => {
            for s in sites {
                if let Site::EntryLine { line_start, indent, first: false, parent } = s {
                    let p = *parent;
                    if (*indent as isize) - p >= 2 {
                        // strictly between the parent's and the collection's indentation
                        let new = (p + 1) as usize;
                        if new < *indent {
                            out.push((format!("{}{}{}", &text[..*line_start], " ".repeat(new), &text[*line_start + *indent..]), "between"));
                            // the same misplaced line with a tab behind its (too short) indentation: the
                            // tab changes nothing about where the entry sits
                            out.push((format!("{}{}\t{}", &text[..*line_start], " ".repeat(new), &text[*line_start + *indent..]), "between-then-tab"));
                        }
                    }
                }
            }
        }
        5 => {
            for s in sites {
                if let Site::FlowContLine { line_start, indent, block_n, plain_before, in_scalar } = s {
                    if *block_n >= 0 {
                        let first = b.get(*line_start + *indent).copied().unwrap_or(b'\n');
                        if let Some(quoted) = in_scalar {
                            // the line continues a scalar that sits inside the flow collection
                            let class: &'static str = match (*quoted, *plain_before) {
                                (true, false) => "flow-cont:inside-quoted-scalar",
                                (true, true) => "flow-cont:inside-quoted-scalar:after-plain-scalar",
                                (false, _) => "flow-cont:inside-plain-scalar",
                            };
                            let new = *block_n as usize;
                            out.push((format!("{}{}{}", &text[..*line_start], " ".repeat(new), &text[*line_start + *indent..]), class));
                            continue;
                        }
                        let class: &'static str = match (first, *plain_before) {
                            (b'"' | b'\'', false) => "flow-cont:quoted",
                            (b']' | b'}', false) => "flow-cont:closer",
                            (b',', false) => "flow-cont:comma",
                            (b'[' | b'{', false) => "flow-cont:opener",
                            (b'#' | b'\n', _) => continue,
                            (b'&' | b'*' | b'!' | b'?' | b':', false) => "flow-cont:indicator",
                            (b'"' | b'\'', true) => "flow-cont:quoted:after-plain-scalar",
                            (b']' | b'}', true) => "flow-cont:closer:after-plain-scalar",
                            (b',', true) => "flow-cont:comma:after-plain-scalar",
                            (b'[' | b'{', true) => "flow-cont:opener:after-plain-scalar",
                            (b'&' | b'*' | b'!' | b'?' | b':', true) => "flow-cont:indicator:after-plain-scalar",
                            _ => "flow-cont:plain",
                        };
                        let new = *block_n as usize; // exactly the block's indentation: not deeper
                        out.push((format!("{}{}{}", &text[..*line_start], " ".repeat(new), &text[*line_start + *indent..]), class));
                    }
                }
            }
        }
        6 => {
            for s in sites {
                if let Site::Quoted { open, close, implicit_block_key: true, single_line: true, .. } = s {
                    // break the key at an interior space, or right after the first character
                    let inner = &text[*open + 1..*close];
                    if let Some(sp) = inner.find(' ') {
                        if sp > 0 && sp + 1 < inner.len() && !inner[sp + 1..].starts_with(' ') && !inner[..sp].ends_with(' ') {
                            let at = *open + 1 + sp;
                            out.push((format!("{}\n      {}", &text[..at], &text[at + 1..]), "key-two-lines"));
                        }
                    }
                }
            }
        }
        7 => {
            for s in sites {
                if let Site::ImplicitKey { start, end, quoted, flow_pair } = s {
                    // lengthen the key beyond 1024 characters (inside the quotes for a quoted key)
                    let at = if *quoted { *end - 1 } else { *end };
                    if at > *start {
                        let class = match (*flow_pair, *quoted) {
                            (false, true) => "long-quoted-key",
                            (false, false) => "long-plain-key",
                            (true, true) => "long-quoted-key-in-flow-pair",
                            (true, false) => "long-plain-key-in-flow-pair",
                        };
                        out.push((format!("{}{}{}", &text[..at], "x".repeat(1100), &text[at..]), class));
                    }
                }
                if let Site::CollectionKey { after_open, map, flow_pair } = s {
                    // a flow collection as implicit key, made longer than 1024 characters by a first entry
                    let entry = if *map { format!("{}: 1, ", "x".repeat(1100)) } else { format!("{}, ", "x".repeat(1100)) };
                    let class = if *flow_pair { "long-collection-key-in-flow-pair" } else { "long-collection-key" };
                    out.push((format!("{}{}{}", &text[..*after_open], entry, &text[*after_open..]), class));
                }
            }
        }
        8 => {
            if let Some(d) = stream.docs.last() {
                let root_ok = match &d.root.kind {
                    Kind::Scalar { style: Style::Single | Style::Double, .. } => true,
                    Kind::Seq { flow: true, .. } | Kind::Map { flow: true, .. } => true,
                    // an empty block collection is written [] / {}
                    Kind::Seq { items, .. } => items.is_empty(),
                    Kind::Map { pairs, .. } => pairs.is_empty(),
                    _ => false,
                };
                if root_ok && !d.explicit_end && text.ends_with('\n') {
                    out.push((format!("{text}\"second root\"\n"), "second-quoted-root"));
                    out.push((format!("{text}[second, root]\n"), "second-flow-root"));
                }
            }
        }
        9 => {
            for s in sites {
                if let Site::Quoted { open, double: true, .. } = s {
                    let at = *open + 1;
                    for (esc, class) in [
                        ("\\q", "unknown-escape"),
                        ("\\xZ1", "truncated-x"),
                        ("\\u12G4", "truncated-u"),
                        ("\\U0001F60G", "truncated-U"),
                        ("\\x4", "short-x"),
                        // a non-hex character in every digit position class: sign, blank, underscore
                        ("\\x+4", "non-hex-digit"),
                        ("\\x-4", "non-hex-digit"),
                        ("\\x4+", "non-hex-digit"),
                        ("\\x 4", "non-hex-digit"),
                        ("\\u+041", "non-hex-digit"),
                        ("\\u00_1", "non-hex-digit"),
                        ("\\u-041", "non-hex-digit"),
                        ("\\U+0000041", "non-hex-digit"),
                        ("\\U0000004 ", "non-hex-digit"),
                        ("\\c", "unknown-escape"),
                        ("\\'", "unknown-escape"),
                        ("\\1", "unknown-escape"),
                    ] {
                        // `\x4` directly before a non-hex character (or the closing quote)
                        if esc == "\\x4" && b.get(at).map(|c| c.is_ascii_hexdigit()).unwrap_or(false) {
                            continue;
                        }
                        out.push((format!("{}{}{}", &text[..at], esc, &text[at..]), class));
                    }
                }
            }
        }
        10 => {
            for s in sites {
                if let Site::PlainValue { start, len, doc } = s {
                    out.push((format!("{}*zz-undefined{}", &text[..*start], &text[*start + *len..]), "alias"));
                    // an anchor of an *earlier* document does not count
                    for name in earlier_only(stream, *doc, &|n| n.anchor.clone()) {
                        out.push((format!("{}*{name}{}", &text[..*start], &text[*start + *len..]), "alias-to-earlier-document"));
                    }
                }
            }
        }
        11 => {
            for s in sites {
                if let Site::PlainValue { start, doc, .. } = s {
                    out.push((format!("{}!zz!x {}", &text[..*start], &text[*start..]), "handle"));
                    // a handle declared only by an earlier document's %TAG directive
                    let here: Vec<&str> = stream.docs[*doc].directives.iter().filter_map(|d| if let crate::model::Directive::Tag(h, _) = d { Some(h.as_str()) } else { None }).collect();
                    for d in &stream.docs[..*doc] {
                        for dir in &d.directives {
                            if let crate::model::Directive::Tag(h, _) = dir {
                                if h.len() > 2 && !here.contains(&h.as_str()) {
                                    out.push((format!("{}{h}x {}", &text[..*start], &text[*start..]), "handle-of-earlier-document"));
                                }
                            }
                        }
                    }
                }
            }
        }
        12 => {
            if let Some(d) = stream.docs.first() {
                if d.explicit_start && !text.starts_with('#') {
                    out.push((format!("%YAML 1.2\n%YAML 1.2\n{text}"), "twice"));
                }
            }
        }
        13 => {
            if let Some(d) = stream.docs.first() {
                if !d.explicit_start && !text.starts_with('#') {
                    out.push((format!("%YAML 1.2\n{text}"), "directive-then-content"));
                }
            }
            if let Some(d) = stream.docs.last() {
                if d.explicit_end && text.ends_with('\n') {
                    out.push((format!("{text}%YAML 1.2\n"), "directive-then-eof"));
                    out.push((format!("{text}%TAG !e! tag:e:\n# comment\n"), "directive-then-eof"));
                }
            }
        }
        _ => {
            out.push((format!("... text\n{text}"), "text-after-leading-marker"));
            out.push((format!("...\n... [a]\n{text}"), "flow-after-leading-marker"));
            for s in sites {
                if let Site::DocEndMarker { pos_after } = s {
                    out.push((format!("{} text{}", &text[..*pos_after], &text[*pos_after..]), "text-after-marker"));
                    out.push((format!("{} [a]{}", &text[..*pos_after], &text[*pos_after..]), "flow-after-marker"));
                    // a marker that closes nothing (a second one in a row, or one before any document) is policed like one that does
                    out.push((format!("{}\n... text{}", &text[..*pos_after], &text[*pos_after..]), "text-after-repeated-marker"));
                    out.push((format!("{}\n...\t\"q\"{}", &text[..*pos_after], &text[*pos_after..]), "quoted-after-repeated-marker"));
                }
            }
        }
    }
    out
}

pub fn check(info: &mut CaseInfo, tree: &[u8], layout: &[u8], op_sel: u8, site_sel: u16) -> CheckResult {
    let stream = gen_stream(tree, &GenCfg::default());
    let (text, sites) = render_with_sites(&stream, layout, true);
    // differential precondition: the undamaged stream is accepted (C03 judges that)
    if parse_with(Backend::Str, &text).error.is_some() {
        info.class("skipped: undamaged stream rejected");
        return Ok(());
    }
    // operators that have a site here
    let applicable: Vec<usize> = (0..OPS.len()).filter(|op| !damages(*op, &text, &sites, &stream).is_empty()).collect();
    if applicable.is_empty() {
        info.class("skipped: no applicable operator");
        return Ok(());
    }
    let op = applicable[(op_sel as usize * applicable.len()) >> 8];
    let ds = damages(op, &text, &sites, &stream);
    let (damaged, class) = &ds[(site_sel as usize * ds.len()) >> 16];
    ensure!(*damaged != text, "generator", "damage operator {} did not change the text", OPS[op]);
    // the same damaged stream with CR LF line breaks (one case in four): still ill-formed
    let crlf = op_sel & 3 == 3 && !damaged.contains('\r');
    let damaged_owned = if crlf { damaged.replace('\n', "\r\n") } else { damaged.clone() };
    let damaged = &damaged_owned;
    info.class_if(crlf, "damaged-stream-with-CRLF-breaks");
    for b in [Backend::Str, Backend::Buffered] {
        let o = parse_with(b, damaged);
        if o.error.is_none() {
            fail!(
                &format!("accepted:{}:{class}", OPS[op]),
                "{}: the damaged stream is accepted ({} events); damaged: {damaged:?}; original: {text:?}",
                b.name(),
                o.events.len()
            );
        }
    }
    info.nontrivial(&(OPS[op], damaged.as_str()));
    info.class(OPS[op]);
    Ok(())
}

pub fn check_corpus_error(info: &mut CaseInfo, id: &str) -> CheckResult {
    let c = corpus().iter().find(|c| c.id == id).ok_or_else(|| crate::engine::Fail::new("corpus", format!("unknown id {id}")))?;
    for b in [Backend::Str, Backend::Buffered] {
        let o = parse_with(b, &c.yaml);
        ensure!(o.error.is_some(), "accepted:corpus-error-case", "{}: test-suite error case {id} is accepted; input: {:?}", b.name(), c.yaml);
    }
    info.nontrivial(id);
    info.class("corpus-error-case");
    Ok(())
}

const BLOCK: u64 = 6000;
fn cases(tier: Tier) -> u64 {
    tier.pick(600_000, 4_500_000)
}

pub fn case_json(t: &[u8], l: &[u8], op: u8, site: u16) -> Value {
    let stream = gen_stream(t, &GenCfg::default());
    let (text, sites) = render_with_sites(&stream, l, true);
    let applicable: Vec<usize> = (0..OPS.len()).filter(|o| !damages(*o, &text, &sites, &stream).is_empty()).collect();
    let damaged = if applicable.is_empty() {
        String::new()
    } else {
        let o = applicable[(op as usize * applicable.len()) >> 8];
        let ds = damages(o, &text, &sites, &stream);
        ds[(site as usize * ds.len()) >> 16].0.clone()
    };
    json!({"tree_hex": hex(t), "layout_hex": hex(l), "op": op, "site": site, "damaged": damaged})
}

impl Property for C06P {
    fn id(&self) -> &'static str {
        "C06"
    }
    fn rule(&self) -> String {
        "A well-formed stream of the C03 generator (checked to be accepted) with exactly one damage operator applied at a generated \
         site recorded by the renderer: D01 cut before a closing quote, D02 cut before a flow closer, D03 swap ] and } or put an extra closer of the other kind before the right one, D04 tab instead \
         of the indentation of the first entry of a nested block collection, D05 re-indent a non-first entry strictly between parent and \
         own indentation (gap >= 2), D06 put a flow continuation line at the enclosing block's indentation (sub-classes by first token), \
         D07 break a quoted implicit key (of a block mapping, or of a single pair in a flow sequence) over two lines, D08 lengthen an implicit key (plain / quoted, with or without node properties, or a flow collection given a 1100-character first entry; of a block mapping or of a single pair in a flow sequence) by 1100 characters, D09 append a \
         second quoted / flow root after a completed quoted / flow root, D10 unknown escape letters and \\x \\u \\U with a missing or non-hexadecimal digit (letter, sign, blank, underscore), D11 replace \
         a plain value by an alias to a name never anchored or anchored only in an earlier document, D12 prefix a value with '!zz!x' or with a handle declared only by an earlier document, D13 two %YAML lines, D14 a directive before \
         a bare document or at the end of the stream, D15 text after '...' on the same line (a marker that ends a document, a repeated marker, a marker before the first document). Plus the 94 error cases of the test suite. \
         One damaged stream in four is additionally converted to CR LF line breaks. Oracle: iteration ends in Err on StrInput and BufferedInput. The operator is chosen among those with a site in the stream. \
         Non-trivial = undamaged accepted and damaged differs; distinct by (operator, damaged text)."
            .into()
    }
    fn assumptions(&self) -> Vec<String> {
        vec!["each operator is applied only at sites where ill-formedness follows from a production (I12)".into()]
    }
    fn streams(&self, tier: Tier) -> Vec<StreamSpec> {
        vec![
            StreamSpec::new("damaged", cases(tier).div_ceil(BLOCK), false, &format!("{} rendered streams x one damage", cases(tier))),
            StreamSpec::new("corpus-errors", 1, true, "the 94 error cases of the yaml-test-suite"),
            StreamSpec::new("flow-pair-keys", 1, true, "every flow sequence of 1..3 entries over 10 entry shapes, in 3 contexts, with each single-pair implicit key (quoted or plain) broken over two lines or separated from its ':' by a break (D07 in flow sequences)"),
        ]
    }
    fn run_block(&self, ctx: &mut Ctx, stream: &str, block: u64) {
        if stream == "flow-pair-keys" {
            flow_pair_keys(ctx);
            return;
        }
        if stream == "corpus-errors" {
            for c in corpus().iter().filter(|c| c.fail) {
                let json = || json!({"corpus": c.id});
                if let Err(f) = ctx.eval(&json, |info| check_corpus_error(info, &c.id)) {
                    ctx.record(json(), &f);
                }
            }
            return;
        }
        let total = cases(ctx.tier);
        let n = (total - (block * BLOCK).min(total)).min(BLOCK) as u32;
        crate::engine::run_proptest(
            ctx,
            (proptest::collection::vec(any::<u8>(), 0..160), proptest::collection::vec(any::<u8>(), 0..300), any::<u8>(), any::<u16>()),
            n,
            |(t, l, op, site)| case_json(t, l, *op, *site),
            |ctx, (t, l, op, site)| ctx.eval(&|| case_json(t, l, *op, *site), |info| check(info, t, l, *op, *site)),
        );
    }
    fn replay(&self, ctx: &mut Ctx, case: &Value) -> CheckResult {
        if let Some(id) = case.get("corpus").and_then(|x| x.as_str()) {
            let id = id.to_string();
            return ctx.eval(&|| case.clone(), |info| check_corpus_error(info, &id));
        }
        if let Some(text) = case.get("must_reject").and_then(|x| x.as_str()) {
            // a committed witness: a concrete ill-formed text
            let text = text.to_string();
            return ctx.eval(&|| case.clone(), |_| {
                for b in [Backend::Str, Backend::Buffered] {
                    ensure!(parse_with(b, &text).error.is_some(), "accepted:witness", "{}: ill-formed text accepted: {text:?}", b.name());
                }
                Ok(())
            });
        }
        let t = unhex(case["tree_hex"].as_str().unwrap_or(""));
        let l = unhex(case["layout_hex"].as_str().unwrap_or(""));
        let op = case["op"].as_u64().unwrap_or(0) as u8;
        let site = case["site"].as_u64().unwrap_or(0) as u16;
        ctx.eval(&|| case.clone(), |info| check(info, &t, &l, op, site))
    }
}


/// D07 inside flow sequences, enumerated: the implicit key of a single pair must stay on one line,
/// whatever precedes it in the sequence (explicit `?` entries, nested collections, other pairs).
const FLOW_ENTRIES: [&str; 10] = ["a", "? a : b", "? a", "a: b", "\"q k\": v", "'s k': v", "[x]: v", "{a: b}", ": v", "p q: v"];

fn flow_pair_keys(ctx: &mut Ctx) {
    let mut seqs: Vec<Vec<usize>> = vec![];
    for a in 0..10 {
        seqs.push(vec![a]);
        for b in 0..10 {
            seqs.push(vec![a, b]);
            for c in 0..10 {
                seqs.push(vec![a, b, c]);
            }
        }
    }
    for seq in seqs {
        for (ci, (pre, post)) in [("", "\n"), ("k: ", "\n"), ("- x\n- ", "\n")].iter().enumerate() {
            let entries: Vec<&str> = seq.iter().map(|i| FLOW_ENTRIES[*i]).collect();
            let good = format!("{pre}[{}]{post}", entries.join(", "));
            if parse_with(Backend::Str, &good).error.is_some() {
                continue; // the undamaged text must be accepted (C03 judges that)
            }
            for (k, e) in entries.iter().enumerate() {
                // only implicit single pairs with a key that has an interior blank
                let damaged_entries: Vec<String> = match *e {
                    "\"q k\": v" => vec!["\"q\n    k\": v".into(), "\"q k\"\n    : v".into()],
                    "'s k': v" => vec!["'s\n    k': v".into(), "'s k'\n    : v".into()],
                    "p q: v" => vec!["p\n    q: v".into(), "p q\n    : v".into()],
                    "a: b" => vec!["a\n    : b".into()],
                    "[x]: v" => vec!["[x]\n    : v".into()],
                    _ => vec![],
                };
                for d in damaged_entries {
                    let mut es: Vec<String> = entries.iter().map(|x| x.to_string()).collect();
                    es[k] = d;
                    let bad = format!("{pre}[{}]{post}", es.join(", "));
                    let json = || json!({"must_reject": bad, "context": ci});
                    let r = ctx.eval(&json, |info| {
                        for b in [Backend::Str, Backend::Buffered] {
                            ensure!(
                                parse_with(b, &bad).error.is_some(),
                                "accepted:D07-quoted-implicit-key-spans-lines:flow-single-pair",
                                "{}: a single pair whose implicit key spans lines is accepted: {bad:?} (undamaged: {good:?})",
                                b.name()
                            );
                        }
                        info.nontrivial(&bad);
                        info.class("D07-flow-single-pair-key");
                        Ok(())
                    });
                    if let Err(f) = r {
                        ctx.record(json(), &f);
                    }
                }
            }
        }
    }
}


/// names (by `get`) that occur in documents before `doc` and nowhere in `doc` itself
fn earlier_only(stream: &Stream, doc: usize, get: &dyn Fn(&crate::model::Node) -> Option<String>) -> Vec<String> {
    fn collect(n: &crate::model::Node, get: &dyn Fn(&crate::model::Node) -> Option<String>, out: &mut Vec<String>) {
        if let Some(x) = get(n) {
            out.push(x);
        }
        match &n.kind {
            Kind::Seq { items, .. } => items.iter().for_each(|i| collect(i, get, out)),
            Kind::Map { pairs, .. } => pairs.iter().for_each(|(k, v)| {
                collect(k, get, out);
                collect(v, get, out);
            }),
            _ => {}
        }
    }
    let mut here = vec![];
    collect(&stream.docs[doc].root, get, &mut here);
    let mut earlier = vec![];
    for d in &stream.docs[..doc] {
        collect(&d.root, get, &mut earlier);
    }
    earlier.sort();
    earlier.dedup();
    earlier.into_iter().filter(|n| !here.contains(n)).collect()
}
