//! C13 — every JSON text loads with its JSON meaning.

use super::Property;
use crate::engine::{CheckResult, Ctx, StreamSpec, Tier};
use crate::{ensure, fail};
use proptest::prelude::*;
use saphyr::{LoadableYamlNode, Scalar, Yaml};
use serde_json::{json, Value};

pub struct C13P;
pub static C13: C13P = C13P;

#[derive(Clone, Debug, PartialEq)]
pub enum J {
    Null,
    Bool(bool),
    /// an integer literal that fits i64, written in plain decimal (`neg_zero` = written "-0")
    Int(i64, bool),
    /// any other JSON number, by its text
    Num(String),
    Str(String),
    Arr(Vec<J>),
    Obj(Vec<(String, J)>),
}

impl J {
    pub fn depth(&self) -> usize {
        match self {
            J::Arr(v) => 1 + v.iter().map(|x| x.depth()).max().unwrap_or(0),
            J::Obj(m) => 1 + m.iter().map(|(_, v)| v.depth()).max().unwrap_or(0),
            _ => 0,
        }
    }
}

/// Layout decisions come from a choice stream (0 = simplest).
pub struct Choices<'a> {
    bytes: &'a [u8],
    pos: usize,
}

impl<'a> Choices<'a> {
    pub fn new(bytes: &'a [u8]) -> Self {
        Choices { bytes, pos: 0 }
    }
    pub fn byte(&mut self) -> u8 {
        let b = self.bytes.get(self.pos).copied().unwrap_or(0);
        self.pos += 1;
        b
    }
    /// monotone mapping of a byte to 0..n
    pub fn pick(&mut self, n: usize) -> usize {
        (self.byte() as usize * n) >> 8
    }
    pub fn exhausted(&self) -> bool {
        self.pos >= self.bytes.len()
    }
}

#[derive(Clone, Copy, PartialEq, Debug)]
pub enum Layout {
    Compact,
    Pretty2,
    Pretty4,
    PrettyTab,
    Random,
}

pub const LAYOUTS: [Layout; 5] = [Layout::Compact, Layout::Pretty2, Layout::Pretty4, Layout::PrettyTab, Layout::Random];

struct Ser<'a> {
    out: String,
    layout: Layout,
    ch: Choices<'a>,
    /// string escaping mode: per character choices
    known_tab_colon: bool,
}

const WS: [&str; 8] = ["", " ", "  ", "\n", "\t", "\n  ", " \t ", "\r\n"];

impl<'a> Ser<'a> {
    fn ws(&mut self) {
        if self.layout == Layout::Random {
            let k = self.ch.pick(3);
            for _ in 0..k {
                let w = WS[self.ch.pick(WS.len())];
                self.out.push_str(w);
            }
        }
    }
    fn newline(&mut self, level: usize) {
        let unit = match self.layout {
            Layout::Pretty2 => "  ",
            Layout::Pretty4 => "    ",
            Layout::PrettyTab => "\t",
            _ => return,
        };
        self.out.push('\n');
        for _ in 0..level {
            self.out.push_str(unit);
        }
    }
    fn string(&mut self, s: &str) {
        self.out.push('"');
        for c in s.chars() {
            let must = matches!(c, '"' | '\\') || (c as u32) < 0x20;
            let style = self.ch.pick(4);
            if must || (style == 3 && (c as u32) < 0xD800) {
                match c {
                    '"' => self.out.push_str("\\\""),
                    '\\' => self.out.push_str("\\\\"),
                    '/' if style >= 2 => self.out.push_str("\\/"),
                    '\u{8}' if style < 2 => self.out.push_str("\\b"),
                    '\u{c}' if style < 2 => self.out.push_str("\\f"),
                    '\n' if style < 2 => self.out.push_str("\\n"),
                    '\r' if style < 2 => self.out.push_str("\\r"),
                    '\t' if style < 2 => self.out.push_str("\\t"),
                    c if (c as u32) < 0x10000 => {
                        if style == 1 {
                            self.out.push_str(&format!("\\u{:04X}", c as u32));
                        } else {
                            self.out.push_str(&format!("\\u{:04x}", c as u32));
                        }
                    }
                    c => self.out.push(c),
                }
            } else if c == '/' && style == 2 {
                self.out.push_str("\\/");
            } else {
                self.out.push(c);
            }
        }
        self.out.push('"');
    }
    fn value(&mut self, v: &J, level: usize) {
        match v {
            J::Null => self.out.push_str("null"),
            J::Bool(b) => self.out.push_str(if *b { "true" } else { "false" }),
            J::Int(i, nz) => {
                if *nz && *i == 0 {
                    self.out.push_str("-0");
                } else {
                    self.out.push_str(&i.to_string());
                }
            }
            J::Num(t) => self.out.push_str(t),
            J::Str(s) => self.string(s),
            J::Arr(items) => {
                self.out.push('[');
                for (i, it) in items.iter().enumerate() {
                    if i > 0 {
                        self.ws();
                        self.out.push(',');
                        if self.layout == Layout::Compact && self.ch.pick(2) == 1 {
                            self.out.push(' ');
                        }
                    }
                    self.newline(level + 1);
                    self.ws();
                    self.value(it, level + 1);
                }
                if !items.is_empty() {
                    self.newline(level);
                }
                self.ws();
                self.out.push(']');
            }
            J::Obj(pairs) => {
                self.out.push('{');
                for (i, (k, val)) in pairs.iter().enumerate() {
                    if i > 0 {
                        self.ws();
                        self.out.push(',');
                        if self.layout == Layout::Compact && self.ch.pick(2) == 1 {
                            self.out.push(' ');
                        }
                    }
                    self.newline(level + 1);
                    self.ws();
                    self.string(k);
                    self.ws();
                    self.out.push(':');
                    if self.layout == Layout::Random {
                        // F13 shape: only tabs between ':' and a value starting with [-0-9A-Za-z_]
                        let before = self.out.len();
                        self.ws();
                        let gap = &self.out[before..];
                        let tab_only = !gap.is_empty() && gap.chars().all(|c| c == '\t') ;
                        if tab_only && matches!(val, J::Null | J::Bool(_) | J::Int(..) | J::Num(_)) {
                            self.known_tab_colon = true;
                        }
                    } else if self.layout != Layout::Compact || self.ch.pick(2) == 1 {
                        self.out.push(' ');
                    }
                    self.value(val, level + 1);
                }
                if !pairs.is_empty() {
                    self.newline(level);
                }
                self.ws();
                self.out.push('}');
            }
        }
    }
}

pub fn serialise(v: &J, layout: Layout, choices: &[u8]) -> (String, bool) {
    let mut s = Ser { out: String::new(), layout, ch: Choices::new(choices), known_tab_colon: false };
    s.ws();
    s.value(v, 0);
    s.ws();
    (s.out, s.known_tab_colon)
}

fn f64_of(text: &str) -> f64 {
    text.parse::<f64>().expect("generator produced a non-number")
}

/// Compare the loaded node with the generating JSON value.
pub fn agrees(y: &Yaml, v: &J, path: &str) -> Result<(), String> {
    match (v, y) {
        (J::Null, Yaml::Value(Scalar::Null)) => Ok(()),
        (J::Bool(b), Yaml::Value(Scalar::Boolean(c))) if b == c => Ok(()),
        (J::Int(i, _), Yaml::Value(Scalar::Integer(k))) if i == k => Ok(()),
        (J::Int(i, _), Yaml::Value(Scalar::FloatingPoint(f))) => {
            let f = f.into_inner();
            // a float of the same value (exactly)
            if f.fract() == 0.0 && f.abs() < 9.0e15 && (f as i64) == *i {
                Ok(())
            } else {
                Err(format!("{path}: integer {i} loaded as FloatingPoint({f:?})"))
            }
        }
        (J::Num(t), Yaml::Value(Scalar::FloatingPoint(f))) => {
            let e = f64_of(t);
            let f = f.into_inner();
            if e == f || (e.is_nan() && f.is_nan()) {
                Ok(())
            } else {
                Err(format!("{path}: number {t} loaded as FloatingPoint({f:?}), expected {e:?}"))
            }
        }
        (J::Num(t), Yaml::Value(Scalar::Integer(k))) => {
            let e = f64_of(t);
            if e.fract() == 0.0 && e.abs() < 9.0e15 && (e as i64) == *k {
                Ok(())
            } else {
                Err(format!("{path}: number {t} loaded as Integer({k})"))
            }
        }
        (J::Str(s), Yaml::Value(Scalar::String(t))) => {
            if s.as_str() == t.as_ref() {
                Ok(())
            } else {
                Err(format!("{path}: string {s:?} loaded as {t:?}"))
            }
        }
        (J::Arr(items), Yaml::Sequence(seq)) => {
            if items.len() != seq.len() {
                return Err(format!("{path}: array of {} loaded as sequence of {}", items.len(), seq.len()));
            }
            for (i, (a, b)) in items.iter().zip(seq.iter()).enumerate() {
                agrees(b, a, &format!("{path}[{i}]"))?;
            }
            Ok(())
        }
        (J::Obj(pairs), Yaml::Mapping(m)) => {
            if pairs.len() != m.len() {
                return Err(format!("{path}: object of {} members loaded as mapping of {}", pairs.len(), m.len()));
            }
            for ((k, v), (yk, yv)) in pairs.iter().zip(m.iter()) {
                match yk {
                    Yaml::Value(Scalar::String(s)) if s.as_ref() == k.as_str() => {}
                    other => return Err(format!("{path}: member name {k:?} loaded as key {other:?}")),
                }
                agrees(yv, v, &format!("{path}.{k:?}"))?;
            }
            Ok(())
        }
        (v, y) => Err(format!("{path}: JSON {v:?} loaded as {y:?}")),
    }
}

pub fn check_text(text: &str, v: &J) -> CheckResult {
    let docs = match Yaml::load_from_str(text) {
        Ok(d) => d,
        Err(e) => fail!("load-error", "JSON text rejected: {e}; text: {text:?}"),
    };
    ensure!(docs.len() == 1, "doc-count", "JSON text loaded as {} documents; text: {text:?}", docs.len());
    if let Err(m) = agrees(&docs[0], v, "$") {
        fail!("value-differs", "{m}; text: {text:?}");
    }
    // the same through the string-slice back-end (load_from_str reads through the iterator back-end)
    let mut parser = saphyr_parser::Parser::new_from_str(text);
    let docs = match Yaml::load_from_parser(&mut parser) {
        Ok(d) => d,
        Err(e) => fail!("load-error", "JSON text rejected through Parser::new_from_str: {e}; text: {text:?}"),
    };
    ensure!(docs.len() == 1, "doc-count", "JSON text loaded as {} documents through Parser::new_from_str; text: {text:?}", docs.len());
    if let Err(m) = agrees(&docs[0], v, "$") {
        fail!("value-differs", "through Parser::new_from_str: {m}; text: {text:?}");
    }
    // and through the other loading mode: deferred scalar resolution, then resolving the tree
    {
        let mut loader = saphyr::YamlLoader::<Yaml>::default();
        loader.early_parse(false);
        let mut parser = saphyr_parser::Parser::new_from_str(text);
        if let Err(e) = parser.load(&mut loader, true) {
            fail!("load-error", "JSON text rejected with early_parse(false): {e}; text: {text:?}");
        }
        let mut docs = loader.into_documents();
        ensure!(docs.len() == 1, "doc-count", "JSON text loaded as {} documents with early_parse(false); text: {text:?}", docs.len());
        docs[0].parse_representation_recursive();
        if let Err(m) = agrees(&docs[0], v, "$") {
            fail!("value-differs", "with early_parse(false) + parse_representation_recursive: {m}; text: {text:?}");
        }
    }
    Ok(())
}

// ---- generators --------------------------------------------------------------------------------

fn json_string() -> impl Strategy<Value = String> {
    crate::oneof![
        3 => "[a-z0-9_]{0,8}",
        3 => proptest::collection::vec(proptest::sample::select(vec![
            "a", "k", "1", " ", "  ", ":", ": ", "-", "- ", "#", " #", "'", "\"", "\\", "/", "[", "]", "{", "}", ",", "?", "&", "*", "!", "|", ">", "%", "@", "`",
            "~", "null", "true", "0x1", "1e3", "\n", "\t", "\r", "\u{8}", "\u{c}", "\u{0}", "\u{1b}", "\u{7f}", "é", "中", "😀", "\u{85}", "\u{a0}",
            "\u{2028}", "\u{2029}", "\u{feff}", "\u{fffd}", "---", "...", "\\n", "\\u0041", "x: y", "<<",
        ]), 0..7).prop_map(|v| v.concat()),
        1 => "\\PC{0,12}",
        1 => proptest::collection::vec(any::<char>(), 0..6).prop_map(|v| v.into_iter().collect::<String>()),
        1 => (1usize..1200).prop_map(|n| "k".repeat(n)),
    ]
}

fn json_number() -> impl Strategy<Value = J> {
    crate::oneof![
        3 => crate::oneof![any::<i64>(), -1000i64..1000, Just(i64::MAX), Just(i64::MIN), Just(0i64), Just(9007199254740993i64)].prop_map(|i| J::Int(i, false)),
        1 => Just(J::Int(0, true)),
        2 => crate::engine::any_f64().prop_filter("finite", |f| f.is_finite()).prop_map(|f| J::Num(format!("{f:?}"))),
        2 => (-100000i64..100000, 0u32..5).prop_map(|(i, d)| J::Num(format!("{:.*}", d.max(1) as usize, i as f64 / 10f64.powi(d as i32)))),
        2 => (proptest::sample::select(vec!["1", "0", "-1", "12", "-0", "5", "123456789"]), proptest::sample::select(vec!["e0", "E0", "e+2", "E-2", "e10", ".0", ".5", ".0e1", ".25E+3", "e-400", "e400", ".000"]))
            .prop_map(|(a, b)| J::Num(format!("{a}{b}"))),
        // mantissa x decimal exponent over the whole range where conversions take different paths
        // (exact powers of ten end at 10^22), and numbers far longer than any canonical form
        2 => (any::<bool>(), "[1-9][0-9]{0,16}", crate::oneof![1 => Just(None), 1 => "[0-9]{1,12}".prop_map(Some)], -40i32..41, any::<bool>())
            .prop_map(|(neg, int, frac, exp, upper)| J::Num(format!("{}{int}{}{}{exp}", if neg { "-" } else { "" }, frac.map(|f| format!(".{f}")).unwrap_or_default(), if upper { 'E' } else { 'e' }))),
        1 => (any::<bool>(), crate::oneof![1 => Just("0".to_string()), 3 => "[1-9][0-9]{0,40}"], "[0-9]{20,60}", crate::oneof![2 => Just(None), 1 => (-30i32..31).prop_map(Some)])
            .prop_map(|(neg, int, frac, exp)| J::Num(format!("{}{int}.{frac}{}", if neg { "-" } else { "" }, exp.map(|e| format!("e{e}")).unwrap_or_default()))),
        1 => (any::<bool>(), "[1-9][0-9]{32,70}").prop_map(|(neg, d)| J::Num(format!("{}{d}", if neg { "-" } else { "" }))),
        1 => proptest::sample::select(vec!["9223372036854775808", "-9223372036854775809", "18446744073709551616", "123456789012345678901234567890", "1e21", "1E400", "-1e400", "4.9e-324", "2.2250738585072014e-308", "0.1", "1.7976931348623157e308"]).prop_map(|s| J::Num(s.to_string())),
    ]
}

fn json_leaf() -> impl Strategy<Value = J> {
    crate::oneof![
        1 => Just(J::Null),
        1 => any::<bool>().prop_map(J::Bool),
        3 => json_number(),
        4 => json_string().prop_map(J::Str),
    ]
}

fn dedup(pairs: Vec<(String, J)>) -> Vec<(String, J)> {
    let mut seen = std::collections::HashSet::new();
    pairs.into_iter().filter(|(k, _)| seen.insert(k.clone())).collect()
}

pub fn json_tree() -> impl Strategy<Value = J> {
    crate::engine::recursive(json_leaf().boxed(), 8, 48, 5, |inner| {
        crate::oneof![
            proptest::collection::vec(inner.clone(), 0..5).prop_map(J::Arr),
            proptest::collection::vec((json_string(), inner.clone()), 0..5).prop_map(|p| J::Obj(dedup(p))),
        ]
    })
}

/// nesting chains up to depth 200 (below the flow-depth limit of 255)
fn json_chain() -> impl Strategy<Value = J> {
    (1usize..200, proptest::collection::vec(any::<bool>(), 200), json_leaf()).prop_map(|(d, kinds, leaf)| {
        let mut v = leaf;
        for i in 0..d {
            v = if kinds[i] { J::Arr(vec![v]) } else { J::Obj(vec![(format!("k{i}"), v)]) };
        }
        v
    })
}

/// Flat pre-order encoding (nesting chains are deeper than serde_json's recursion limit).
pub fn j_to_json(v: &J) -> Value {
    fn go(v: &J, out: &mut Vec<Value>) {
        match v {
            J::Null => out.push(json!({"t": "null"})),
            J::Bool(b) => out.push(json!({"t": "bool", "v": b})),
            J::Int(i, nz) => out.push(json!({"t": "int", "v": i.to_string(), "neg_zero": nz})),
            J::Num(t) => out.push(json!({"t": "num", "v": t})),
            J::Str(s) => out.push(json!({"t": "str", "v": s, "hex": crate::engine::hex(s.as_bytes())})),
            J::Arr(a) => {
                out.push(json!({"t": "arr", "n": a.len()}));
                for x in a {
                    go(x, out);
                }
            }
            J::Obj(o) => {
                out.push(json!({"t": "obj", "n": o.len()}));
                for (k, x) in o {
                    out.push(json!({"t": "key", "v": k, "hex": crate::engine::hex(k.as_bytes())}));
                    go(x, out);
                }
            }
        }
    }
    let mut out = vec![];
    go(v, &mut out);
    Value::Array(out)
}

fn hexstr(j: &Value) -> String {
    j["hex"].as_str().and_then(|h| String::from_utf8(crate::engine::unhex(h)).ok()).unwrap_or_else(|| j["v"].as_str().unwrap_or("").to_string())
}

pub fn j_from_json(j: &Value) -> J {
    fn go(items: &[Value], pos: &mut usize) -> J {
        let Some(j) = items.get(*pos) else { return J::Null };
        *pos += 1;
        match j["t"].as_str().unwrap_or("null") {
            "bool" => J::Bool(j["v"].as_bool().unwrap_or(false)),
            "int" => J::Int(j["v"].as_str().and_then(|s| s.parse().ok()).unwrap_or(0), j["neg_zero"].as_bool().unwrap_or(false)),
            "num" => J::Num(j["v"].as_str().unwrap_or("0").to_string()),
            "str" => J::Str(hexstr(j)),
            "arr" => {
                let n = j["n"].as_u64().unwrap_or(0);
                J::Arr((0..n).map(|_| go(items, pos)).collect())
            }
            "obj" => {
                let n = j["n"].as_u64().unwrap_or(0);
                J::Obj(
                    (0..n)
                        .map(|_| {
                            let k = items.get(*pos).map(hexstr).unwrap_or_default();
                            *pos += 1;
                            (k, go(items, pos))
                        })
                        .collect(),
                )
            }
            _ => J::Null,
        }
    }
    let empty = vec![];
    let items = j.as_array().unwrap_or(&empty);
    let mut pos = 0;
    go(items, &mut pos)
}

fn interesting_string(s: &str) -> bool {
    s.chars().any(|c| !c.is_ascii_alphanumeric())
}

fn nontrivial(v: &J, layout: Layout) -> bool {
    fn any(v: &J, f: &dyn Fn(&J) -> bool) -> bool {
        f(v) || match v {
            J::Arr(a) => a.iter().any(|x| any(x, f)),
            J::Obj(o) => o.iter().any(|(_, x)| any(x, f)),
            _ => false,
        }
    }
    let content = v.depth() >= 2
        || any(v, &|x| match x {
            J::Str(s) => interesting_string(s),
            J::Num(_) => true,
            J::Obj(o) => o.iter().any(|(k, _)| interesting_string(k)),
            _ => false,
        });
    content && layout != Layout::Compact
}

const RAND_BLOCK: u64 = 10_000;
fn cases(tier: Tier) -> u64 {
    tier.pick(600_000, 4_000_000)
}
fn chain_cases(tier: Tier) -> u64 {
    tier.pick(12_000, 60_000)
}

pub type Case = (J, usize, Vec<u8>);

pub fn case_json(c: &Case) -> Value {
    let (text, _) = serialise(&c.0, LAYOUTS[c.1], &c.2);
    json!({"value": j_to_json(&c.0), "text": text, "text_hex": crate::engine::hex(text.as_bytes())})
}

fn run(ctx: &mut Ctx, strat: impl Strategy<Value = Case>, n: u32) {
    crate::engine::run_proptest(ctx, strat, n, case_json, |ctx, c| {
        let layout = LAYOUTS[c.1];
        let (text, f13_shape) = serialise(&c.0, layout, &c.2);
        ctx.eval(&|| case_json(c), |info| {
            if nontrivial(&c.0, layout) {
                info.nontrivial(&text);
            }
            info.class(match layout {
                Layout::Compact => "layout-compact",
                Layout::Random => "layout-random-ws",
                _ => "layout-pretty",
            });
            info.class_if(c.0.depth() >= 2, "depth>=2");
            info.class_if(f13_shape, "tab-only-after-colon(F13 shape)");
            check_text(&text, &c.0)
        })
    });
}

impl Property for C13P {
    fn id(&self) -> &'static str {
        "C13"
    }
    fn rule(&self) -> String {
        "JSON values from a proptest prop_recursive generator (objects with distinct hostile string keys, arrays, strings over all \
         escapes / indicators / raw non-ASCII / control characters, numbers incl. i64 boundaries, > i64, fractions, mantissa x exponent -40..40, texts of 33..100 characters, -0; depth \
         <= 8, plus nesting chains to depth 200) serialised by a choice-stream-driven writer: compact, pretty (2 / 4 / tab), or random \
         runs of space, tab, LF, CRLF around every token; per-character choice of escape vs literal. Oracle: Yaml::load_from_str, Yaml::load_from_parser(Parser::new_from_str) and the deferred loading mode (early_parse(false) + parse_representation_recursive) give \
         one document equal to the generating value (objects -> mappings with string keys in order, numbers -> Integer / FloatingPoint of \
         exactly the same value). Non-trivial = (depth >= 2 or a string with a non-alphanumeric char or a non-integer number) and a \
         non-compact layout; distinct by serialised text."
            .into()
    }
    fn assumptions(&self) -> Vec<String> {
        vec![
            "-0 may load as Integer 0 or Float -0.0 (I8); a number may load as Integer or FloatingPoint as long as the value is exactly the same".into(),
            "\\u escapes are generated only for non-surrogate code points".into(),
        ]
    }
    fn streams(&self, tier: Tier) -> Vec<StreamSpec> {
        vec![
            StreamSpec::new("trees", cases(tier).div_ceil(RAND_BLOCK), false, &format!("{} JSON values x generated layout", cases(tier))),
            StreamSpec::new("chains", chain_cases(tier).div_ceil(2000), false, &format!("{} nesting chains of depth 1..200", chain_cases(tier))),
        ]
    }
    fn run_block(&self, ctx: &mut Ctx, stream: &str, block: u64) {
        let ch = proptest::collection::vec(any::<u8>(), 0..200);
        if stream == "chains" {
            let total = chain_cases(ctx.tier);
            let n = (total - (block * 2000).min(total)).min(2000) as u32;
            run(ctx, (json_chain(), 0usize..5, ch), n);
        } else {
            let total = cases(ctx.tier);
            let n = (total - (block * RAND_BLOCK).min(total)).min(RAND_BLOCK) as u32;
            run(ctx, (json_tree(), 0usize..5, ch), n);
        }
    }
    fn replay(&self, ctx: &mut Ctx, case: &Value) -> CheckResult {
        let v = j_from_json(&case["value"]);
        let text = case["text_hex"].as_str().and_then(|h| String::from_utf8(crate::engine::unhex(h)).ok()).unwrap_or_else(|| case["text"].as_str().unwrap_or("").to_string());
        ctx.eval(&|| case.clone(), |_| check_text(&text, &v))
    }
}
