//! C14 — line-break style does not change the parse.

use super::Property;
use crate::drive::{parse_with, Backend, Ev, Outcome};
use crate::engine::{case_text, text_case, CaseInfo, CheckResult, Ctx, StreamSpec, Tier};
use crate::gen::{self, TextPlan};
use crate::fail;
use serde_json::Value;

pub struct C14P;
pub static C14: C14P = C14P;

fn plan(tier: Tier) -> TextPlan {
    gen::plan(tier, 1.0)
        .with_exh(tier.pick(vec![("yaml24", 4), ("lb12", 5)], vec![("yaml24", 5), ("lb12", 6)]))
        .with_deepblock(tier.pick(30_000, 300_000))
}

fn compare(kind: &str, a: &Outcome, b: &Outcome) -> CheckResult {
    if a.evs() != b.evs() {
        let n = a.events.len().min(b.events.len());
        let at = (0..n).find(|i| a.events[*i].0 != b.events[*i].0).unwrap_or(n);
        fail!("events-differ", "{kind}: event #{at}: LF={:?} vs {:?}; LF stream: {} | {kind} stream: {}", a.events.get(at).map(|e| e.0.short()), b.events.get(at).map(|e| e.0.short()), a.dump(), b.dump());
    }
    for (i, ((e, sa), (_, sb))) in a.events.iter().zip(b.events.iter()).enumerate() {
        if (sa.start.line, sa.start.col, sa.end.line, sa.end.col) != (sb.start.line, sb.start.col, sb.end.line, sb.end.col) {
            fail!("linecol-differ", "{kind}: event #{i} {}: LF span {:?} vs {:?}", e.short(), sa, sb);
        }
    }
    match (&a.error, &b.error) {
        (None, None) => {}
        (Some(x), Some(y)) => {
            if x.info != y.info || x.mark.line != y.mark.line || x.mark.col != y.mark.col {
                fail!("error-differs", "{kind}: LF error {:?} vs {:?}", x, y);
            }
        }
        (x, y) => fail!("outcome-differs", "{kind}: LF error {:?} vs {:?}", x, y),
    }
    Ok(())
}

pub fn check_input(info: &mut CaseInfo, input: &str) -> CheckResult {
    // construction over rejection: a generated input containing CR is made CR-free by deleting them
    let stripped;
    let input = if input.contains('\r') {
        info.class("cr-removed");
        stripped = input.replace('\r', "");
        stripped.as_str()
    } else {
        input
    };
    if !input.contains('\n') {
        info.class("no-break");
        return Ok(());
    }
    let crlf = input.replace('\n', "\r\n");
    let cr = input.replace('\n', "\r");
    for b in [Backend::Str, Backend::Buffered] {
        let base = parse_with(b, input);
        compare("CRLF", &base, &parse_with(b, &crlf))?;
        compare("CR", &base, &parse_with(b, &cr))?;
        if b == Backend::Str {
            let breaks = input.matches('\n').count();
            let has_scalar = base.events.iter().any(|(e, _)| matches!(e, Ev::Scalar { .. }));
            if breaks >= 2 && has_scalar {
                info.nontrivial(input);
            }
            info.class_if(base.events.iter().any(|(e, _)| matches!(e, Ev::Scalar { v, .. } if v.contains('\n'))), "break-in-scalar-value");
            info.class_if(base.error.is_none(), "accepted");
        }
    }
    Ok(())
}

impl Property for C14P {
    fn id(&self) -> &'static str {
        "C14"
    }
    fn rule(&self) -> String {
        "Every CR-free input of C01's spaces (plus an exhaustive scope over a 12-symbol alphabet with quotes, block-scalar \
         indicators, backslash, comment and a 2-byte character, and deeply indented block scalars) that contains a line feed is \
         parsed as is, with LF->CRLF and with LF->CR, on StrInput and BufferedInput. Events (incl. scalar values), line/col of every \
         span endpoint, outcome, and on error info + line + col must be equal (error index is not compared). \
         Non-trivial = >= 2 breaks and >= 1 scalar event; distinct by input hash."
            .into()
    }
    fn assumptions(&self) -> Vec<String> {
        vec!["CRs of a generated input are deleted first; inputs without LF are trivially unchanged and only counted".into()]
    }
    fn streams(&self, tier: Tier) -> Vec<StreamSpec> {
        plan(tier).streams()
    }
    fn run_block(&self, ctx: &mut Ctx, stream: &str, block: u64) {
        plan(ctx.tier).run_block(ctx, stream, block, &|info, s| check_input(info, s));
    }
    fn replay(&self, ctx: &mut Ctx, case: &Value) -> CheckResult {
        let s = case_text(case);
        ctx.eval(&|| text_case(&s), |info| check_input(info, &s))
    }
}
