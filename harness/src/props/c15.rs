//! C15 — documents in a stream are parsed independently of each other.

use super::Property;
use crate::drive::{parse_with, push_with, Backend, Ev, Outcome};
use crate::engine::{CaseInfo, CheckResult, Ctx, StreamSpec, Tier};
use crate::gen::{corpus, soup_strategy, GOLDEN};
use crate::model::{gen_stream, render, GenCfg};
use crate::oracle::fold::{m_of_yaml, M};
use crate::{ensure, fail};
use proptest::prelude::*;
use saphyr::{LoadableYamlNode, Yaml};
use serde_json::{json, Value};

pub struct C15P;
pub static C15: C15P = C15P;

#[derive(Clone, Debug)]
pub enum Part {
    Rendered(Vec<u8>, Vec<u8>),
    Corpus(usize),
    Soup(Vec<&'static str>),
    Special(usize),
}

/// hand-picked parts that stress state carried between documents
pub const SPECIALS: &[&str] = &[
    "%TAG ! tag:local.example,2000:\n--- !x a\n",
    "%TAG !! tag:other.example,2000:\n--- !!str a\n",
    "--- !!str b\n",
    "--- !x c\n",
    "%YAML 1.2\n--- a\n",
    "%TAG !e! tag:e.example,2000:\n--- !e!t [a]\n",
    "&a x\n",
    "- &a 1\n- *a\n",
    "--- |+\n keep\n\n\n",
    "plain\n  continued\n",
    "{a: b}\n",
    "[ : x ]\n",
    "[? a : b]\n",
    "- - - deep\n",
    "a:\n  b:\n    c: d\n",
    "? complex\n: value\n",
    "--- >-\n folded\n text\n",
    "\"quoted\n  multi\"\n",
    "",
    "# only a comment\n",
    "---\n",
    "a\n...\n",
    "k: [a,\n  b]\n",
    "- {a: [b, {c: d}]}\n",
    // added after seeded changes C15-m3 / C15-m4
    "...\nkey: value\n",
    "...\n",
    "\u{feff}b: 2\n",
    "\u{feff}--- second\n",
    "\u{feff}%YAML 1.2\n--- v\n",
    "# c\n...\n# d\n",
];

/// Parts that repeat one counted feature `n` times (aliases, anchors, tags, flow collections,
/// documents, nesting levels): two of them together cross limits (128, 255 / 256) that neither
/// crosses alone. Added after seeded change C15-m9 (a per-stream alias budget).
pub const MANY_KINDS: [&str; 7] = ["aliases", "anchors", "tags", "flow", "docs", "nested-flow", "nested-block"];
pub const MANY_SIZES: [usize; 3] = [70, 130, 300];
pub fn many_part(kind: usize, n: usize) -> String {
    let mut t = String::new();
    match MANY_KINDS[kind % MANY_KINDS.len()] {
        "aliases" => {
            t.push_str("- &a x\n");
            for _ in 0..n {
                t.push_str("- *a\n");
            }
        }
        "anchors" => {
            for i in 0..n {
                t.push_str(&format!("- &a{i} x\n"));
            }
            t.push_str(&format!("- *a{}\n", n - 1));
        }
        "tags" => {
            t.push_str("%TAG !e! tag:e.example,2000:\n---\n");
            for i in 0..n {
                t.push_str(&format!("- !e!t{i} x\n"));
            }
        }
        "flow" => {
            for _ in 0..n {
                t.push_str("- [a, {b: c}]\n");
            }
        }
        "docs" => {
            for i in 0..n {
                t.push_str(&format!("--- d{i}\n"));
            }
        }
        "nested-flow" => {
            let d = n.min(120);
            t.push_str(&"[".repeat(d));
            t.push('x');
            t.push_str(&"]".repeat(d));
            t.push('\n');
        }
        _ => {
            for i in 0..n.min(200) {
                t.push_str(&" ".repeat(i));
                t.push_str("k:\n");
            }
        }
    }
    t
}

fn valid_corpus() -> Vec<&'static str> {
    let mut v: Vec<&'static str> = corpus().iter().filter(|c| !c.fail && !c.yaml.contains('\u{feff}')).map(|c| c.yaml.as_str()).collect();
    v.extend(GOLDEN.iter().copied().filter(|g| !g.contains('\u{feff}')));
    v
}

pub fn part_text(p: &Part) -> String {
    let mut t = match p {
        Part::Rendered(tree, layout) => {
            let s = gen_stream(tree, &GenCfg::default());
            render(&s, layout, true).0
        }
        Part::Corpus(i) => {
            let c = valid_corpus();
            c[*i % c.len()].to_string()
        }
        Part::Soup(v) => v.concat().replace('\u{feff}', ""),
        Part::Special(i) => SPECIALS[*i % SPECIALS.len()].to_string(),
    };
    // the statement requires that a part ends with a line break
    if !(t.ends_with('\n') || t.ends_with('\r')) {
        t.push('\n');
    }
    t
}

fn renumber(e: &Ev, off: usize) -> Ev {
    let f = |a: &usize| if *a > 0 { *a + off } else { 0 };
    match e {
        Ev::Alias(a) => Ev::Alias(a + off),
        Ev::Scalar { v, style, aid, tag } => Ev::Scalar { v: v.clone(), style: *style, aid: f(aid), tag: tag.clone() },
        Ev::SeqStart(a, t) => Ev::SeqStart(f(a), t.clone()),
        Ev::MapStart(a, t) => Ev::MapStart(f(a), t.clone()),
        other => other.clone(),
    }
}

fn anchor_count(o: &Outcome) -> usize {
    o.events
        .iter()
        .map(|(e, _)| match e {
            Ev::Scalar { aid, .. } => *aid,
            Ev::SeqStart(a, _) | Ev::MapStart(a, _) => *a,
            _ => 0,
        })
        .max()
        .unwrap_or(0)
}

pub fn check_parts(info: &mut CaseInfo, texts: &[String]) -> CheckResult {
    // every part must be accepted on its own (precondition of the statement)
    let mut parts: Vec<Outcome> = vec![];
    if texts.iter().any(|t| t.contains('\0')) {
        // U+0000 is the Input contract's end-of-input sentinel: such a part is accepted alone only
        // because the scanner stops reading there, and is not a stream in the statement's sense
        info.class("skipped: a part contains NUL (end-of-input sentinel)");
        return Ok(());
    }
    for t in texts {
        let o = parse_with(Backend::Str, t);
        if !o.ok() {
            info.class("skipped: a part is rejected on its own");
            return Ok(());
        }
        parts.push(o);
    }
    let joined = texts.join("...\n");
    // expected events: concatenation, anchor ids renumbered
    let mut expected = vec![Ev::StreamStart];
    let mut off = 0;
    for p in &parts {
        for (e, _) in &p.events {
            if !matches!(e, Ev::StreamStart | Ev::StreamEnd) {
                expected.push(renumber(e, off));
            }
        }
        off += anchor_count(p);
    }
    expected.push(Ev::StreamEnd);
    for b in [Backend::Str, Backend::Buffered] {
        for (how, o) in [("pull", parse_with(b, &joined)), ("push", push_with(b, &joined))] {
            if let Some(e) = &o.error {
                fail!("join-rejected", "{how}/{}: every part parses on its own but the join fails: {}; join: {joined:?}", b.name(), e.display);
            }
            let got = o.evs();
            if got != expected {
                let n = got.len().min(expected.len());
                let at = (0..n).find(|i| got[*i] != expected[*i]).unwrap_or(n);
                fail!(
                    "events-differ",
                    "{how}/{}: event #{at} of the join is {:?}, the parts give {:?}; join: {joined:?}",
                    b.name(),
                    got.get(at).map(|e| e.short()),
                    expected.get(at).map(|e| e.short())
                );
            }
        }
    }
    // loading interface: documents of the join = documents of the parts
    let mut want: Vec<M> = vec![];
    for t in texts {
        match Yaml::load_from_str(t) {
            Ok(d) => want.extend(d.iter().map(m_of_yaml)),
            Err(e) => fail!("part-load-error", "part {t:?} parses but does not load: {e}"),
        }
    }
    match Yaml::load_from_str(&joined) {
        Ok(d) => {
            let got: Vec<M> = d.iter().map(m_of_yaml).collect();
            ensure!(got == want, "documents-differ", "load_from_str(join) gives {:?}, the parts give {:?}; join: {joined:?}", got, want);
        }
        Err(e) => fail!("join-rejected", "load_from_str(join) fails: {e}; join: {joined:?}"),
    }
    let nonempty = parts.iter().filter(|p| p.events.len() > 2).count();
    let rich = joined.contains('%') || joined.contains('&') || joined.contains('[') || joined.contains('{') || joined.contains('|') || joined.contains('>');
    if nonempty >= 2 && rich {
        info.nontrivial(&joined);
    }
    info.class("checked");
    info.class_if(joined.contains("%TAG"), "tag-directive");
    info.class_if(joined.contains('&'), "anchor");
    info.class_if(texts.len() >= 3, ">=3 parts");
    Ok(())
}

pub fn part_strategy() -> impl Strategy<Value = Part> {
    crate::oneof![
        6 => (proptest::collection::vec(any::<u8>(), 0..100), proptest::collection::vec(any::<u8>(), 0..200)).prop_map(|(t, l)| Part::Rendered(t, l)),
        3 => any::<usize>().prop_map(Part::Corpus),
        3 => (0..SPECIALS.len()).prop_map(Part::Special),
        1 => soup_strategy().prop_map(Part::Soup),
    ]
}

const BLOCK: u64 = 5000;
fn cases(tier: Tier) -> u64 {
    tier.pick(400_000, 2_000_000)
}

fn case_json(parts: &[Part]) -> Value {
    json!({"parts": parts.iter().map(part_text).collect::<Vec<_>>()})
}

impl Property for C15P {
    fn id(&self) -> &'static str {
        "C15"
    }
    fn rule(&self) -> String {
        "Histories of 2..4 streams, each drawn from: streams rendered by the C03 generator (directives incl. %TAG / %YAML, anchors reused \
         by name, keep-chomped block scalars, flow collections), the valid test-suite corpus, a list of hand-picked state-stressing parts \
         (%TAG redefining '!' and '!!', open-ended plain scalars, flow single pairs, empty streams, comment-only streams), repetition parts (one counted feature — aliases, anchors, tags, flow collections, documents, nesting levels — repeated 70 / 130 / 300 times, all ordered pairs) and token soups. \
         A part not ending in a break gets one; a history with a part that is rejected on its own is skipped (counted). The parts are \
         joined with '...' lines. Oracle: the join parses (pull and push, StrInput and BufferedInput) to the concatenation of the parts' \
         events with anchor ids renumbered, and load_from_str(join) equals the concatenation of the parts' documents. \
         Non-trivial = >= 2 non-empty parts and a directive, anchor, flow collection or block scalar somewhere; distinct by joined text."
            .into()
    }
    fn assumptions(&self) -> Vec<String> {
        vec!["differential against the parser itself on the parts (paired with C03, which checks the parts against the model)".into()]
    }
    fn streams(&self, tier: Tier) -> Vec<StreamSpec> {
        vec![
            StreamSpec::new("histories", cases(tier).div_ceil(BLOCK), false, &format!("{} generated histories of 2..4 parts", cases(tier))),
            StreamSpec::new("special-pairs", 1, true, &format!("all {} ordered pairs of the hand-picked parts", SPECIALS.len() * SPECIALS.len())),
            StreamSpec::new("many-pairs", 1, true, &format!("all ordered pairs of the {} repetition parts ({:?} x n in {:?}: one counted feature repeated n times), and each of them three times in a row", MANY_KINDS.len() * MANY_SIZES.len(), MANY_KINDS, MANY_SIZES)),
        ]
    }
    fn run_block(&self, ctx: &mut Ctx, stream: &str, block: u64) {
        if stream == "special-pairs" {
            for a in 0..SPECIALS.len() {
                for b in 0..SPECIALS.len() {
                    let texts = vec![part_text(&Part::Special(a)), part_text(&Part::Special(b))];
                    let json = || json!({"parts": texts});
                    if let Err(f) = ctx.eval(&json, |info| check_parts(info, &texts)) {
                        ctx.record(json(), &f);
                    }
                }
            }
            return;
        }
        if stream == "many-pairs" {
            let parts: Vec<String> = (0..MANY_KINDS.len()).flat_map(|k| MANY_SIZES.iter().map(move |n| many_part(k, *n))).collect();
            let mut run = |ctx: &mut Ctx, texts: Vec<String>| {
                let json = || json!({"parts": texts});
                if let Err(f) = ctx.eval(&json, |info| check_parts(info, &texts)) {
                    ctx.record(json(), &f);
                }
            };
            for a in &parts {
                for b in &parts {
                    run(ctx, vec![a.clone(), b.clone()]);
                }
                run(ctx, vec![a.clone(), a.clone(), a.clone()]);
            }
            return;
        }
        let total = cases(ctx.tier);
        let n = (total - (block * BLOCK).min(total)).min(BLOCK) as u32;
        crate::engine::run_proptest(ctx, proptest::collection::vec(part_strategy(), 2..5), n, |p| case_json(p), |ctx, p| {
            let texts: Vec<String> = p.iter().map(part_text).collect();
            ctx.eval(&|| json!({"parts": texts}), |info| check_parts(info, &texts))
        });
    }
    fn replay(&self, ctx: &mut Ctx, case: &Value) -> CheckResult {
        let texts: Vec<String> = case["parts"].as_array().map(|a| a.iter().filter_map(|x| x.as_str().map(|s| s.to_string())).collect()).unwrap_or_default();
        ctx.eval(&|| case.clone(), |info| check_parts(info, &texts))
    }
}
