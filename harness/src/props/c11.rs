//! C11 — nesting depth cannot crash the process.
//!
//! Every scenario (shape x API x depth) runs in its own child process on a thread with an 8 MiB
//! stack; the child must exit normally having printed `ok` or `err`.

use super::Property;
use crate::engine::{CheckResult, Ctx, Fail, StreamSpec, Tier};

use serde_json::{json, Value};
use std::io::Read;
use std::os::unix::process::ExitStatusExt;
use std::process::{Command, Stdio};
use std::time::{Duration, Instant};

pub struct C11P;
pub static C11: C11P = C11P;

pub use crate::nest_scenario::{child_main, nest_text, scenario, APIS, OPENERS, SHAPES};

#[derive(Debug, PartialEq)]
pub enum Outcome {
    Ok,
    Err,
    Panic,
    Signal(i32),
    Exit(i32),
    Timeout,
}

/// Path of the unoptimised build of the scenarios (`/verif/nestchild`, built by `bin/check C11`).
pub fn debug_child() -> Option<String> {
    let p = std::env::var("VERIF_NEST_DEBUG").unwrap_or_else(|_| format!("{}/nestchild/target/debug/nestchild", crate::gen::root()));
    std::path::Path::new(&p).exists().then_some(p)
}

/// Build profiles the scenarios run under: the harness's own (optimised) build, and the dev
/// profile when its binary is there.
pub fn profiles() -> Vec<&'static str> {
    if debug_child().is_some() {
        vec!["release", "debug"]
    } else {
        vec!["release"]
    }
}

/// Address-space limit of one scenario child (`VERIF_NEST_MEM_MB`, default 3072 MiB; the largest
/// scenario of the thorough grid peaks at about 0.22 GiB on the unchanged tree).
pub fn mem_cap_bytes() -> u64 {
    std::env::var("VERIF_NEST_MEM_MB").ok().and_then(|v| v.parse::<u64>().ok()).unwrap_or(3072) << 20
}

pub fn run_child(profile: &str, shape: &str, api: &str, depth: usize, word: &[u8]) -> Outcome {
    run_child_timed(profile, shape, api, depth, word).0
}

pub fn run_child_timed(profile: &str, shape: &str, api: &str, depth: usize, word: &[u8]) -> (Outcome, f64) {
    let exe = if profile == "debug" { debug_child().expect("debug child binary") } else { std::env::current_exe().expect("exe").to_string_lossy().into_owned() };
    let mut cmd = Command::new(exe);
    // address-space cap: a scenario that allocates without bound ends as an allocation failure
    // (abort) inside its own child instead of exhausting the machine
    let cap = mem_cap_bytes();
    unsafe {
        use std::os::unix::process::CommandExt;
        cmd.pre_exec(move || {
            let r = libc::rlimit { rlim_cur: cap, rlim_max: cap };
            libc::setrlimit(libc::RLIMIT_AS, &r);
            Ok(())
        });
    }
    let mut child = cmd
        .arg("nest")
        .arg(shape)
        .arg(api)
        .arg(depth.to_string())
        .arg(crate::engine::hex(word))
        .stdin(Stdio::null())
        .stdout(Stdio::piped())
        .stderr(Stdio::null())
        .spawn()
        .expect("spawn nest child");
    let mut stdout = child.stdout.take().unwrap();
    let start = Instant::now();
    let status = loop {
        match child.try_wait() {
            Ok(Some(st)) => break Some(st),
            Ok(None) => {
                if start.elapsed() > Duration::from_secs(120) {
                    let _ = child.kill();
                    let _ = child.wait();
                    break None;
                }
                std::thread::sleep(Duration::from_millis(2));
            }
            Err(_) => break None,
        }
    };
    let mut out = String::new();
    let _ = stdout.read_to_string(&mut out);
    let secs = start.elapsed().as_secs_f64();
    let o = match status {
        None => Outcome::Timeout,
        Some(st) => {
            if let Some(sig) = st.signal() {
                Outcome::Signal(sig)
            } else if st.code() == Some(0) {
                if out.trim() == "ok" {
                    Outcome::Ok
                } else {
                    Outcome::Err
                }
            } else if st.code() == Some(3) {
                Outcome::Panic
            } else {
                Outcome::Exit(st.code().unwrap_or(-1))
            }
        }
    };
    (o, secs)
}

/// A child that ran this long before it was killed by a signal is a resource runaway, not a stack
/// overflow at a depth worth bisecting; it also ends its grid block, like a hang does.
pub const SLOW_DEATH_S: f64 = 10.0;
pub const SLOW_DEATH_NOTE: &str = "not bisected";

pub fn check_scenario(profile: &str, shape: &str, api: &str, depth: usize, word: &[u8]) -> CheckResult {
    let (o, secs) = run_child_timed(profile, shape, api, depth, word);
    match o {
        Outcome::Ok | Outcome::Err => Ok(()),
        Outcome::Signal(sig) if secs > SLOW_DEATH_S => Err(Fail::new(
            "abort",
            format!("[{profile} build] shape {shape} through {api} at depth {depth}: child killed by signal {sig} after {secs:.0} s (allocation beyond the {} MiB address-space cap, or a stack overflow reached slowly; {SLOW_DEATH_NOTE})", mem_cap_bytes() >> 20),
        )),
        Outcome::Signal(sig) => {
            // bisect the smallest crashing depth for the report
            let (mut lo, mut hi) = (0usize, depth);
            while hi - lo > (hi / 50).max(1) {
                let mid = (lo + hi) / 2;
                if matches!(run_child(profile, shape, api, mid, word), Outcome::Signal(_)) {
                    hi = mid;
                } else {
                    lo = mid;
                }
            }
            Err(Fail::new("abort", format!("[{profile} build] shape {shape} through {api} at depth {depth}: child killed by signal {sig} (stack overflow, or an allocation beyond the {} MiB address-space cap); smallest crashing depth is about {hi}", mem_cap_bytes() >> 20)))
        }
        Outcome::Panic => Err(Fail::new("panic", format!("[{profile} build] shape {shape} through {api} at depth {depth}: panicked"))),
        Outcome::Exit(c) => Err(Fail::new("abort", format!("[{profile} build] shape {shape} through {api} at depth {depth}: child exit status {c}"))),
        Outcome::Timeout => Err(Fail::new("hang", format!("[{profile} build] shape {shape} through {api} at depth {depth}: no result within 120 s"))),
    }
}

fn case_json(profile: &str, shape: &str, api: &str, depth: usize, word: &[u8]) -> Value {
    json!({"profile": profile, "shape": shape, "api": api, "depth": depth, "word_hex": crate::engine::hex(word)})
}

fn grid_depths(tier: Tier) -> Vec<usize> {
    tier.pick(vec![1, 10, 100, 254, 255, 256, 1000, 10_000, 30_000, 100_000], vec![1, 10, 100, 127, 128, 254, 255, 256, 257, 1000, 3000, 10_000, 30_000, 65_535, 65_536, 100_000, 300_000])
}

fn cap_depth(profile: &str, shape: &str, api: &str, tier: Tier, d: usize) -> usize {
    if profile == "debug" && matches!(shape, "key" | "alt-block" | "mix") && api.starts_with("load_") {
        // the same quadratic hashing cost, ten times slower without optimisation
        d.min(3000)
    } else if profile == "debug" && shape == "key-per-level" {
        d.min(5000)
    } else if shape == "key-per-level" {
        // input size is quadratic in depth: cost bound, stated in the evidence
        d.min(tier.pick(5000, 20_000))
    } else if matches!(shape, "key" | "alt-block" | "mix") && api.starts_with("load_") {
        // nested collection *keys*: the loader hashes every key subtree, which is quadratic in the
        // depth (16 000 levels take ~7 s); cost bound, stated in the evidence
        d.min(10_000)
    } else if shape == "key" && matches!(api, "built_drop" | "emit" | "emit_ml") {
        // a tree nested in key position is hashed once per level while it is built: quadratic
        d.min(3000)
    } else if api.starts_with("emit") && !matches!(shape, "seq" | "flowseq" | "block-flow") {
        // nested block mappings are emitted one per line with growing indentation: the output is
        // quadratic in the depth (cost bound, stated in the evidence)
        d.min(5000)
    } else {
        d
    }
}

fn random_cases(tier: Tier) -> u64 {
    tier.pick(60, 600)
}

impl Property for C11P {
    fn id(&self) -> &'static str {
        "C11"
    }
    fn rule(&self) -> String {
        "Scenarios = build profile {the harness's optimised build; the unoptimised dev profile of /verif/nestchild, where frames are larger and tail calls stay calls — present when bin/check built it} x nesting shape {'- ', '? ', '[', '{a: ' (left open, and closed again), alternating block, alternating flow, block then flow, 'k:' per level, '- ' per level around a literal block scalar whose spaces-only lines straddle the 16-character window \
         (depth capped at 5*10^3 quick / 2*10^4 thorough because the input is quadratic; nested collection keys through the loaders capped at 10^4 (3*10^3 unoptimised) because hashing nested keys is quadratic), random opener mixes} x API {pull iterator, \
         Parser::load with a counting receiver, load_from_str + forget, load_from_str + drop, MarkedYamlOwned load + drop, iteratively \
         built tree + drop, iteratively built tree + YamlEmitter::dump with default settings and with multiline_strings(true); the '? ' shape is built nested in key position (capped at 3*10^3: building it hashes every level)} x depth {1, 10, 10^2, 254, 255, 256, 10^3, 10^4, 3*10^4, 10^5 (+127, 128, 257, 3*10^3, 65535, 65536, 3*10^5 thorough)} \
         plus proptest-generated (shape, API, log-uniform depth, opener word). Each scenario runs in its own child process on a thread \
         with an 8 MiB stack and a 3 GiB address-space limit; the child must exit normally with 'ok' or 'err'. SIGSEGV / SIGABRT => violation (smallest crashing depth \
         bisected). Non-trivial = depth >= 1000; distinct by (profile, shape, API, depth, word)."
            .into()
    }
    fn assumptions(&self) -> Vec<String> {
        vec![
            "8 MiB = the default main-thread stack on Linux; host programs with smaller thread stacks crash earlier".into(),
            format!("build profiles exercised in this run: {:?}", profiles()),
        ]
    }
    fn streams(&self, tier: Tier) -> Vec<StreamSpec> {
        vec![
            StreamSpec::new("grid", (SHAPES.len() - 1) as u64, true, &format!("{} shapes x {} APIs x depths {:?}", SHAPES.len() - 1, APIS.len(), grid_depths(tier))),
            StreamSpec::new("random", random_cases(tier).div_ceil(15), false, &format!("{} generated (shape, API, depth in 1..10^5 log-uniform, opener word)", random_cases(tier))),
        ]
    }
    fn run_block(&self, ctx: &mut Ctx, stream: &str, block: u64) {
        if stream == "grid" {
            let shape = SHAPES[block as usize];
            let mut fails = 0;
            for profile in profiles() {
                for api in APIS {
                    for d in grid_depths(ctx.tier) {
                        let d = cap_depth(profile, shape, api, ctx.tier, d);
                        let json = || case_json(profile, shape, api, d, &[]);
                        let r = ctx.eval(&json, |info| {
                            info.class(if profile == "debug" { "profile:debug" } else { "profile:release" });
                            if d >= 1000 {
                                info.nontrivial(&(profile, shape, api, d));
                            }
                            check_scenario(profile, shape, api, d, &[])
                        });
                        if let Err(f) = r {
                            let hang = f.category == "hang" || f.detail.contains(SLOW_DEATH_NOTE);
                            ctx.record(json(), &f);
                            fails += 1;
                            // four failures outside the known findings say enough about this shape; each further one costs a child run to its limit
                            if hang || fails >= 4 {
                                // every further scenario of this shape would cost another 120 s (or another runaway child): one decides the block
                                return;
                            }
                        }
                    }
                }
            }
            return;
        }
        let total = random_cases(ctx.tier);
        let n = (total - (block * 15).min(total)).min(15) as u32;
        let tier = ctx.tier;
        let profs = profiles();
        crate::engine::run_proptest(
            ctx,
            (0usize..profs.len(), 0usize..SHAPES.len(), 0usize..APIS.len(), 0.0f64..5.0, proptest::collection::vec(0u8..5, 1..6)),
            n,
            |(p, s, a, e, w)| case_json(profs[*p], SHAPES[*s], APIS[*a], cap_depth(profs[*p], SHAPES[*s], APIS[*a], tier, 10f64.powf(*e) as usize).max(1), w),
            |ctx, (p, s, a, e, w)| {
                let (profile, shape, api) = (profs[*p], SHAPES[*s], APIS[*a]);
                let d = cap_depth(profile, shape, api, tier, 10f64.powf(*e) as usize).max(1);
                ctx.eval(&|| case_json(profile, shape, api, d, w), |info| {
                    info.class(if profile == "debug" { "profile:debug" } else { "profile:release" });
                    if d >= 1000 {
                        info.nontrivial(&(profile, shape, api, d, w));
                    }
                    check_scenario(profile, shape, api, d, w)
                })
            },
        );
    }
    fn replay(&self, ctx: &mut Ctx, case: &Value) -> CheckResult {
        let profile = if case["profile"].as_str() == Some("debug") && debug_child().is_some() { "debug" } else { "release" };
        let shape = case["shape"].as_str().unwrap_or("seq").to_string();
        let api = case["api"].as_str().unwrap_or("iter").to_string();
        let d = case["depth"].as_u64().unwrap_or(1) as usize;
        let w = crate::engine::unhex(case["word_hex"].as_str().unwrap_or(""));
        ctx.eval(&|| case.clone(), |_| check_scenario(profile, &shape, &api, d, &w))
    }
    fn block_timeout_s(&self, _tier: Tier) -> u64 {
        1500
    }
}
