//! C11 — nesting depth cannot crash the process.
//!
//! Every scenario (shape x API x depth) runs in its own child process on a thread with an 8 MiB
//! stack; the child must exit normally having printed `ok` or `err`.

use super::Property;
use crate::engine::{CheckResult, Ctx, Fail, StreamSpec, Tier};

use saphyr::{LoadableYamlNode, Scalar, Yaml, YamlEmitter};
use saphyr_parser::{Event, Parser, Span, SpannedEventReceiver};
use serde_json::{json, Value};
use std::io::Read;
use std::os::unix::process::ExitStatusExt;
use std::process::{Command, Stdio};
use std::time::{Duration, Instant};

pub struct C11P;
pub static C11: C11P = C11P;

pub const SHAPES: [&str; 9] = ["seq", "key", "flowseq", "flowmap", "alt-block", "alt-flow", "block-flow", "key-per-level", "mix"];
pub const APIS: [&str; 7] = ["iter", "load", "load_str_forget", "load_str_drop", "load_marked_drop", "built_drop", "emit"];

/// Build the nested input. `mix` uses the opener word given (indices into OPENERS).
pub const OPENERS: [&str; 5] = ["- ", "? ", "[", "{a: ", "- - "];

pub fn nest_text(shape: &str, depth: usize, word: &[u8]) -> String {
    let mut s = String::new();
    match shape {
        "seq" => {
            s = "- ".repeat(depth);
            s.push('x');
        }
        "key" => {
            s = "? ".repeat(depth);
            s.push('x');
        }
        "flowseq" => s = "[".repeat(depth),
        "flowmap" => s = "{a: ".repeat(depth),
        "alt-block" => {
            for i in 0..depth {
                s.push_str(if i % 2 == 0 { "- " } else { "? " });
            }
            s.push('x');
        }
        "alt-flow" => {
            for i in 0..depth {
                s.push_str(if i % 2 == 0 { "[" } else { "{a: " });
            }
        }
        "block-flow" => {
            // block nesting followed by flow nesting (below the flow limit)
            s = "- ".repeat(depth);
            s.push_str(&"[".repeat(200.min(depth)));
            s.push_str(&"]".repeat(200.min(depth)));
        }
        "key-per-level" => {
            for d in 0..depth {
                for _ in 0..d {
                    s.push(' ');
                }
                s.push_str("k:\n");
            }
        }
        _ => {
            for i in 0..depth {
                let w = if word.is_empty() { 0 } else { word[i % word.len()] as usize % OPENERS.len() };
                s.push_str(OPENERS[w]);
            }
            s.push('x');
        }
    }
    s
}

struct Sink(usize);
impl<'i> SpannedEventReceiver<'i> for Sink {
    fn on_event(&mut self, _: Event<'i>, _: Span) {
        self.0 += 1;
    }
}

fn built_tree(shape: &str, depth: usize) -> Yaml<'static> {
    let mut y = Yaml::Value(Scalar::String("x".into()));
    for i in 0..depth {
        let map = match shape {
            "flowmap" | "key" | "key-per-level" => true,
            "alt-block" | "alt-flow" | "mix" => i % 2 == 1,
            _ => false,
        };
        y = if map {
            let mut m = hashlink::LinkedHashMap::new();
            m.insert(Yaml::Value(Scalar::String("a".into())), y);
            Yaml::Mapping(m)
        } else {
            Yaml::Sequence(vec![y])
        };
    }
    y
}

/// The scenario itself; runs inside the child. Returns "ok" or "err".
pub fn scenario(shape: &str, api: &str, depth: usize, word: &[u8]) -> &'static str {
    match api {
        "iter" => {
            let text = nest_text(shape, depth, word);
            for e in Parser::new_from_str(&text) {
                if e.is_err() {
                    return "err";
                }
            }
            "ok"
        }
        "load" => {
            let text = nest_text(shape, depth, word);
            let mut sink = Sink(0);
            match Parser::new_from_str(&text).load(&mut sink, true) {
                Ok(()) => "ok",
                Err(_) => "err",
            }
        }
        "load_str_forget" => {
            let text = nest_text(shape, depth, word);
            match Yaml::load_from_str(&text) {
                Ok(d) => {
                    std::mem::forget(d);
                    "ok"
                }
                Err(_) => "err",
            }
        }
        "load_str_drop" => {
            let text = nest_text(shape, depth, word);
            match Yaml::load_from_str(&text) {
                Ok(d) => {
                    drop(d);
                    "ok"
                }
                Err(_) => "err",
            }
        }
        "load_marked_drop" => {
            let text = nest_text(shape, depth, word);
            match saphyr::MarkedYamlOwned::load_from_str(&text) {
                Ok(d) => {
                    drop(d);
                    "ok"
                }
                Err(_) => "err",
            }
        }
        "built_drop" => {
            let y = built_tree(shape, depth);
            drop(y);
            "ok"
        }
        _ => {
            let y = built_tree(shape, depth);
            let mut out = String::new();
            let r = YamlEmitter::new(&mut out).dump(&y);
            std::mem::forget(y);
            if r.is_ok() {
                "ok"
            } else {
                "err"
            }
        }
    }
}

/// Entry point of the child process: `verif nest <shape> <api> <depth> <wordhex>`.
pub fn child_main(args: &[String]) -> i32 {
    let shape = args[2].clone();
    let api = args[3].clone();
    let depth: usize = args[4].parse().unwrap_or(1);
    let word = crate::engine::unhex(args.get(5).map(|s| s.as_str()).unwrap_or(""));
    // the default main-thread stack of a Rust program on Linux: 8 MiB
    let h = std::thread::Builder::new().stack_size(8 << 20).spawn(move || scenario(&shape, &api, depth, &word)).expect("spawn");
    match h.join() {
        Ok(r) => {
            println!("{r}");
            0
        }
        Err(_) => {
            println!("panic");
            3
        }
    }
}

#[derive(Debug, PartialEq)]
pub enum Outcome {
    Ok,
    Err,
    Panic,
    Signal(i32),
    Exit(i32),
    Timeout,
}

pub fn run_child(shape: &str, api: &str, depth: usize, word: &[u8]) -> Outcome {
    let mut child = Command::new(std::env::current_exe().expect("exe"))
        .arg("nest")
        .arg(shape)
        .arg(api)
        .arg(depth.to_string())
        .arg(crate::engine::hex(word))
        .stdin(Stdio::null())
        .stdout(Stdio::piped())
        .stderr(Stdio::null())
        .spawn()
        .expect("spawn nest child");
    let mut stdout = child.stdout.take().unwrap();
    let start = Instant::now();
    let status = loop {
        match child.try_wait() {
            Ok(Some(st)) => break Some(st),
            Ok(None) => {
                if start.elapsed() > Duration::from_secs(120) {
                    let _ = child.kill();
                    let _ = child.wait();
                    break None;
                }
                std::thread::sleep(Duration::from_millis(2));
            }
            Err(_) => break None,
        }
    };
    let mut out = String::new();
    let _ = stdout.read_to_string(&mut out);
    match status {
        None => Outcome::Timeout,
        Some(st) => {
            if let Some(sig) = st.signal() {
                Outcome::Signal(sig)
            } else if st.code() == Some(0) {
                if out.trim() == "ok" {
                    Outcome::Ok
                } else {
                    Outcome::Err
                }
            } else if st.code() == Some(3) {
                Outcome::Panic
            } else {
                Outcome::Exit(st.code().unwrap_or(-1))
            }
        }
    }
}

pub fn check_scenario(shape: &str, api: &str, depth: usize, word: &[u8]) -> CheckResult {
    match run_child(shape, api, depth, word) {
        Outcome::Ok | Outcome::Err => Ok(()),
        Outcome::Signal(sig) => {
            // bisect the smallest crashing depth for the report
            let (mut lo, mut hi) = (0usize, depth);
            while hi - lo > (hi / 50).max(1) {
                let mid = (lo + hi) / 2;
                if matches!(run_child(shape, api, mid, word), Outcome::Signal(_)) {
                    hi = mid;
                } else {
                    lo = mid;
                }
            }
            Err(Fail::new("abort", format!("shape {shape} through {api} at depth {depth}: child killed by signal {sig} (stack overflow); smallest crashing depth is about {hi}")))
        }
        Outcome::Panic => Err(Fail::new("panic", format!("shape {shape} through {api} at depth {depth}: panicked"))),
        Outcome::Exit(c) => Err(Fail::new("abort", format!("shape {shape} through {api} at depth {depth}: child exit status {c}"))),
        Outcome::Timeout => Err(Fail::new("hang", format!("shape {shape} through {api} at depth {depth}: no result within 120 s"))),
    }
}

fn case_json(shape: &str, api: &str, depth: usize, word: &[u8]) -> Value {
    json!({"shape": shape, "api": api, "depth": depth, "word_hex": crate::engine::hex(word)})
}

fn grid_depths(tier: Tier) -> Vec<usize> {
    tier.pick(vec![1, 10, 100, 1000, 10_000, 30_000], vec![1, 10, 100, 1000, 3000, 10_000, 30_000, 100_000])
}

fn cap_depth(shape: &str, api: &str, tier: Tier, d: usize) -> usize {
    if shape == "key-per-level" {
        // input size is quadratic in depth: cost bound, stated in the evidence
        d.min(tier.pick(5000, 20_000))
    } else if matches!(shape, "key" | "alt-block" | "mix") && api.starts_with("load_") {
        // nested collection *keys*: the loader hashes every key subtree, which is quadratic in the
        // depth (16 000 levels take ~7 s); cost bound, stated in the evidence
        d.min(10_000)
    } else if api == "emit" && !matches!(shape, "seq" | "flowseq" | "block-flow") {
        // nested block mappings are emitted one per line with growing indentation: the output is
        // quadratic in the depth (cost bound, stated in the evidence)
        d.min(5000)
    } else {
        d
    }
}

fn random_cases(tier: Tier) -> u64 {
    tier.pick(60, 600)
}

impl Property for C11P {
    fn id(&self) -> &'static str {
        "C11"
    }
    fn rule(&self) -> String {
        "Scenarios = nesting shape {'- ', '? ', '[', '{a: ', alternating block, alternating flow, block then flow, 'k:' per level \
         (depth capped at 5*10^3 quick / 2*10^4 thorough because the input is quadratic; nested collection keys through the loaders capped at 10^4 because hashing nested keys is quadratic), random opener mixes} x API {pull iterator, \
         Parser::load with a counting receiver, load_from_str + forget, load_from_str + drop, MarkedYamlOwned load + drop, iteratively \
         built tree + drop, iteratively built tree + YamlEmitter::dump} x depth {1, 10, 10^2, 10^3, 10^4, 3*10^4 (+3*10^3, 10^5 thorough)} \
         plus proptest-generated (shape, API, log-uniform depth, opener word). Each scenario runs in its own child process on a thread \
         with an 8 MiB stack; the child must exit normally with 'ok' or 'err'. SIGSEGV / SIGABRT => violation (smallest crashing depth \
         bisected). Non-trivial = depth >= 1000; distinct by (shape, API, depth, word)."
            .into()
    }
    fn assumptions(&self) -> Vec<String> {
        vec!["8 MiB = the default main-thread stack on Linux; host programs with smaller thread stacks crash earlier".into()]
    }
    fn streams(&self, tier: Tier) -> Vec<StreamSpec> {
        vec![
            StreamSpec::new("grid", (SHAPES.len() - 1) as u64, true, &format!("{} shapes x {} APIs x depths {:?}", SHAPES.len() - 1, APIS.len(), grid_depths(tier))),
            StreamSpec::new("random", random_cases(tier).div_ceil(15), false, &format!("{} generated (shape, API, depth in 1..10^5 log-uniform, opener word)", random_cases(tier))),
        ]
    }
    fn run_block(&self, ctx: &mut Ctx, stream: &str, block: u64) {
        if stream == "grid" {
            let shape = SHAPES[block as usize];
            for api in APIS {
                for d in grid_depths(ctx.tier) {
                    let d = cap_depth(shape, api, ctx.tier, d);
                    let json = || case_json(shape, api, d, &[]);
                    let r = ctx.eval(&json, |info| {
                        if d >= 1000 {
                            info.nontrivial(&(shape, api, d));
                        }
                        check_scenario(shape, api, d, &[])
                    });
                    if let Err(f) = r {
                        ctx.record(json(), &f);
                    }
                }
            }
            return;
        }
        let total = random_cases(ctx.tier);
        let n = (total - (block * 15).min(total)).min(15) as u32;
        let tier = ctx.tier;
        crate::engine::run_proptest(
            ctx,
            (0usize..SHAPES.len(), 0usize..APIS.len(), 0.0f64..5.0, proptest::collection::vec(0u8..5, 1..6)),
            n,
            |(s, a, e, w)| case_json(SHAPES[*s], APIS[*a], cap_depth(SHAPES[*s], APIS[*a], tier, 10f64.powf(*e) as usize).max(1), w),
            |ctx, (s, a, e, w)| {
                let (shape, api) = (SHAPES[*s], APIS[*a]);
                let d = cap_depth(shape, api, tier, 10f64.powf(*e) as usize).max(1);
                ctx.eval(&|| case_json(shape, api, d, w), |info| {
                    if d >= 1000 {
                        info.nontrivial(&(shape, api, d, w));
                    }
                    check_scenario(shape, api, d, w)
                })
            },
        );
    }
    fn replay(&self, ctx: &mut Ctx, case: &Value) -> CheckResult {
        let shape = case["shape"].as_str().unwrap_or("seq").to_string();
        let api = case["api"].as_str().unwrap_or("iter").to_string();
        let d = case["depth"].as_u64().unwrap_or(1) as usize;
        let w = crate::engine::unhex(case["word_hex"].as_str().unwrap_or(""));
        ctx.eval(&|| case.clone(), |_| check_scenario(&shape, &api, d, &w))
    }
    fn block_timeout_s(&self, _tier: Tier) -> u64 {
        1500
    }
}
