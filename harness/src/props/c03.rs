//! C03 — block and flow structure parses to the node tree the document denotes.

use super::Property;
use crate::drive::{parse_with, Backend, Ev, Outcome};
use crate::engine::{hex, unhex, CaseInfo, CheckResult, Ctx, StreamSpec, Tier};
use crate::gen::corpus;
use crate::model::{expected_events, gen_stream, render, Features, GenCfg, Kind, Stream, XEv};
use crate::{ensure, fail};
use proptest::prelude::*;
use saphyr_parser::ScalarStyle;
use serde_json::{json, Value};

pub struct C03P;
pub static C03: C03P = C03P;

pub fn compare(text: &str, expected: &[XEv], o: &Outcome, who: &str) -> CheckResult {
    if let Some(e) = &o.error {
        fail!("rejects-wellformed", "{who}: a well-formed rendered stream is rejected: {}; after {} events; text: {text:?}", e.display, o.events.len());
    }
    let n = expected.len().min(o.events.len());
    for i in 0..n {
        if !expected[i].matches(&o.events[i].0) {
            fail!("events-differ", "{who}: event #{i}: expected {} but got {}; text: {text:?}", expected[i].short(), o.events[i].0.short());
        }
    }
    ensure!(expected.len() == o.events.len(), "events-differ", "{who}: expected {} events, got {}; text: {text:?}", expected.len(), o.events.len());
    Ok(())
}

pub fn structure_nontrivial(s: &Stream) -> bool {
    s.docs.iter().any(|d| {
        d.root.depth() >= 2
            || d.root.any(&|n| n.has_props() || matches!(n.kind, Kind::Alias(_)))
            || matches!(&d.root.kind, Kind::Seq { flow: false, items } if items.iter().any(|i| matches!(i.kind, Kind::Seq { flow: true, .. } | Kind::Map { flow: true, .. })))
            || matches!(&d.root.kind, Kind::Map { flow: false, pairs } if pairs.iter().any(|(_, v)| matches!(v.kind, Kind::Seq { flow: true, .. } | Kind::Map { flow: true, .. })))
    })
}

pub fn check_rendered(info: &mut CaseInfo, tree: &[u8], layout: &[u8], rich: bool) -> CheckResult {
    let s = gen_stream(tree, &GenCfg::default());
    let (text, feat) = render(&s, layout, rich);
    let expected = expected_events(&s);
    for b in [Backend::Str, Backend::Buffered] {
        let o = parse_with(b, &text);
        compare(&text, &expected, &o, &b.name())?;
    }
    classify(info, &s, &feat, &text);
    Ok(())
}

pub fn classify(info: &mut CaseInfo, s: &Stream, feat: &Features, text: &str) {
    if structure_nontrivial(s) {
        info.nontrivial(text);
    }
    for c in feat.classes() {
        info.class(c);
    }
    info.class_if(s.docs.iter().any(|d| d.root.depth() >= 3), "depth>=3");
}

// ---- corpus ------------------------------------------------------------------------------------

fn escape_text(text: &str) -> String {
    let mut t = text.to_owned();
    for (ch, r) in [('\\', "\\\\"), ('\n', "\\n"), ('\r', "\\r"), ('\u{8}', "\\b"), ('\t', "\\t")] {
        t = t.replace(ch, r);
    }
    t
}

/// Our events in the test-suite notation (flow markers and anchor names are normalised away on the
/// expected side, as the upstream harness does; the explicit document start is kept).
fn ev_lines(o: &Outcome) -> Vec<String> {
    let idx = |a: &usize| if *a > 0 { format!(" &{a}") } else { String::new() };
    let tag = |t: &Option<(String, String)>| t.as_ref().map(|(h, s)| format!(" <{h}{s}>")).unwrap_or_default();
    o.events
        .iter()
        .map(|(e, _)| match e {
            Ev::StreamStart => "+STR".to_string(),
            Ev::StreamEnd => "-STR".to_string(),
            Ev::DocStart(x) => if *x { "+DOC ---".to_string() } else { "+DOC".to_string() },
            Ev::DocEnd => "-DOC".to_string(),
            Ev::SeqStart(a, t) => format!("+SEQ{}{}", idx(a), tag(t)),
            Ev::SeqEnd => "-SEQ".to_string(),
            Ev::MapStart(a, t) => format!("+MAP{}{}", idx(a), tag(t)),
            Ev::MapEnd => "-MAP".to_string(),
            Ev::Alias(a) => format!("=ALI *{a}"),
            Ev::Scalar { v, style, aid, tag: t } => {
                let k = match style {
                    ScalarStyle::Plain => ":",
                    ScalarStyle::SingleQuoted => "'",
                    ScalarStyle::DoubleQuoted => "\"",
                    ScalarStyle::Literal => "|",
                    ScalarStyle::Folded => ">",
                };
                format!("=VAL{}{} {k}{}", idx(aid), tag(t), escape_text(v))
            }
            Ev::Nothing => "NOTHING".to_string(),
        })
        .collect()
}

/// The suite's `tree:` normalised: anchor names -> numbers (by order of definition, aliases by the
/// latest definition of that name), flow markers dropped, `-DOC ...` -> `-DOC`.
pub fn expected_lines(tree: &str) -> Vec<String> {
    let mut anchors: Vec<String> = vec![];
    tree.split('\n')
        .map(|l| l.trim_start().to_string())
        .filter(|l| !l.is_empty())
        .map(|mut l| {
            if l.starts_with("-DOC") {
                return "-DOC".to_string();
            }
            // flow markers
            for (a, b) in [("+MAP {}", "+MAP"), ("+SEQ []", "+SEQ")] {
                if l.starts_with(a) {
                    l = format!("{b}{}", &l[a.len()..]);
                }
            }
            if let Some(rest) = l.strip_prefix("=ALI *") {
                let id = anchors.iter().rposition(|a| a == rest).map(|p| p + 1).unwrap_or(0);
                return format!("=ALI *{id}");
            }
            // an anchor is `&name` before the value marker
            let head_end = if l.starts_with("=VAL") {
                // the value starts at the first of " :", " '", " \"", " |", " >" that follows props
                let mut pos = 4;
                let bytes = l.as_bytes();
                loop {
                    if pos + 1 >= bytes.len() {
                        break l.len();
                    }
                    if bytes[pos] == b' ' {
                        match bytes[pos + 1] {
                            b'&' => {
                                pos = l[pos + 1..].find(' ').map(|p| p + pos + 1).unwrap_or(l.len());
                            }
                            b'<' => {
                                pos = l[pos + 1..].find('>').map(|p| p + pos + 2).unwrap_or(l.len());
                            }
                            _ => break pos,
                        }
                    } else {
                        break pos;
                    }
                }
            } else {
                l.len()
            };
            let (head, tail) = l.split_at(head_end.min(l.len()));
            let mut head = head.to_string();
            if let Some(p) = head.find(" &") {
                let end = head[p + 2..].find(' ').map(|e| e + p + 2).unwrap_or(head.len());
                let name = head[p + 2..end].to_string();
                anchors.push(name);
                head = format!("{} &{}{}", &head[..p], anchors.len(), &head[end..]);
            }
            format!("{head}{tail}")
        })
        .collect()
}

pub fn check_corpus_case(info: &mut CaseInfo, id: &str, variant: usize) -> CheckResult {
    let c = corpus().iter().find(|c| c.id == id).ok_or_else(|| crate::engine::Fail::new("corpus", format!("unknown corpus id {id}")))?;
    check_yaml_tree(info, id, &c.yaml, &c.tree, variant)
}

/// Compare a document with its expected events in test-suite notation (also used for committed
/// regression witnesses).
pub fn check_yaml_tree(info: &mut CaseInfo, id: &str, yaml: &str, tree: &str, variant: usize) -> CheckResult {
    let text = match variant {
        0 => yaml.to_string(),
        1 => format!("# a comment line\n{yaml}"),
        2 => format!("\n{yaml}"),
        _ => yaml.replace('\n', "\r\n"),
    };
    let expected = expected_lines(tree);
    for b in [Backend::Str, Backend::Buffered] {
        let o = parse_with(b, &text);
        if let Some(e) = &o.error {
            fail!("rejects-wellformed", "corpus {id} variant {variant} ({}): rejected: {}", b.name(), e.display);
        }
        let got = ev_lines(&o);
        // an omitted node (`=VAL :` in the suite, with or without properties) may be reported as
        // the plain scalar `~` or as the empty plain scalar (I1)
        let same = |g: &String, e: &String| g == e || (e.ends_with(" :") && e.starts_with("=VAL") && *g == format!("{e}~"));
        if got.len() != expected.len() || !got.iter().zip(expected.iter()).all(|(g, e)| same(g, e)) {
            let n = got.len().min(expected.len());
            let at = (0..n).find(|i| !same(&got[*i], &expected[*i])).unwrap_or(n);
            fail!("events-differ", "corpus {id} variant {variant} ({}): line {at}: expected {:?}, got {:?}", b.name(), expected.get(at), got.get(at));
        }
    }
    info.nontrivial(&(id, variant));
    info.class("corpus");
    Ok(())
}

fn corpus_ids() -> Vec<&'static str> {
    corpus().iter().filter(|c| !c.fail && !c.yaml.contains('\u{feff}')).map(|c| c.id.as_str()).collect()
}

const BLOCK: u64 = 6000;
fn cases(tier: Tier) -> u64 {
    tier.pick(600_000, 3_000_000)
}

pub fn case_strategy() -> impl Strategy<Value = (Vec<u8>, Vec<u8>, bool)> {
    (proptest::collection::vec(any::<u8>(), 0..160), proptest::collection::vec(any::<u8>(), 0..300), proptest::bool::weighted(0.8))
}

pub fn case_json(tree: &[u8], layout: &[u8], rich: bool) -> Value {
    let s = gen_stream(tree, &GenCfg::default());
    let (text, _) = render(&s, layout, rich);
    json!({"tree_hex": hex(tree), "layout_hex": hex(layout), "rich": rich, "text": text})
}

impl Property for C03P {
    fn id(&self) -> &'static str {
        "C03"
    }
    fn rule(&self) -> String {
        "Abstract streams (1..4 documents, directives, explicit / bare documents, nodes: plain / quoted / block scalars in simple mode, \
         aliases, block and flow sequences and mappings, omitted nodes, anchors and tags on every non-alias node; <= 60 nodes, depth <= 6) \
         decoded from a proptest byte stream, rendered by a renderer written from the YAML 1.2.2 productions under a second byte stream of \
         layout choices (indent width per level, same-line vs next-line placement, compact forms, explicit vs implicit keys, sequence at the \
         key's indentation, flow single-pair / empty-key / empty-value / trailing comma / multi-line flow with legal continuation indent, \
         property order, properties on their own line, a line break between properties and content inside flow collections, a tab as separation after document markers, comments and blank lines where the grammar has s-l-comments, 1..3 separation spaces). \
         Oracle: the expected event list is a function of the tree alone (kind, scalar text, style, anchor link, resolved tag, explicit \
         document start; an omitted node may be the plain scalar '~' or the empty plain scalar); StrInput and BufferedInput. Plus the 308 \
         non-error yaml-test-suite cases (without BOM) against their `tree:` in four variants (as is, comment line prepended, empty line \
         prepended, LF -> CRLF). Non-trivial = >= 2 nesting levels or a flow-in-block node or a property / alias; distinct by rendered text."
            .into()
    }
    fn assumptions(&self) -> Vec<String> {
        vec![
            "the renderer (harness/src/model.rs) is the reference for well-formedness; it uses spaces only as separation".into(),
            "tags are compared as prefix + suffix strings".into(),
        ]
    }
    fn streams(&self, tier: Tier) -> Vec<StreamSpec> {
        vec![
            StreamSpec::new("rendered", cases(tier).div_ceil(BLOCK), false, &format!("{} rendered abstract streams", cases(tier))),
            StreamSpec::new("corpus", 4, true, "the non-error test-suite cases against their tree: expectation, x 4 layout-preserving variants"),
            StreamSpec::new("flow-entries-exh", 2, true, "every flow sequence and every flow mapping of 1..3 entries over 11 / 10 entry shapes (plain, explicit, empty-key, empty-value, adjacent-value, collection-key, nested) in 3 contexts"),
        ]
    }
    fn run_block(&self, ctx: &mut Ctx, stream: &str, block: u64) {
        if stream == "flow-entries-exh" {
            flow_entries_exh(ctx, block == 0);
            return;
        }
        if stream == "corpus" {
            for id in corpus_ids() {
                let json = || json!({"corpus": id, "variant": block});
                if let Err(f) = ctx.eval(&json, |info| check_corpus_case(info, id, block as usize)) {
                    ctx.record(json(), &f);
                }
            }
            return;
        }
        let total = cases(ctx.tier);
        let n = (total - (block * BLOCK).min(total)).min(BLOCK) as u32;
        crate::engine::run_proptest(
            ctx,
            case_strategy(),
            n,
            |(t, l, r)| case_json(t, l, *r),
            |ctx, (t, l, r)| ctx.eval(&|| case_json(t, l, *r), |info| check_rendered(info, t, l, *r)),
        );
    }
    fn replay(&self, ctx: &mut Ctx, case: &Value) -> CheckResult {
        if let (Some(doc), Some(exp)) = (case.get("flow_doc").and_then(|x| x.as_str()), case.get("expected").and_then(|x| x.as_array())) {
            let doc = doc.to_string();
            let exp: Vec<String> = exp.iter().filter_map(|x| x.as_str().map(|s| s.to_string())).collect();
            return ctx.eval(&|| case.clone(), |info| check_flow_doc(info, &doc, &exp));
        }
        if let (Some(y), Some(t)) = (case.get("yaml").and_then(|x| x.as_str()), case.get("tree").and_then(|x| x.as_str())) {
            let (y, t) = (y.to_string(), t.to_string());
            return ctx.eval(&|| case.clone(), |info| check_yaml_tree(info, "witness", &y, &t, 0));
        }
        if let Some(id) = case.get("corpus").and_then(|x| x.as_str()) {
            let v = case["variant"].as_u64().unwrap_or(0) as usize;
            let id = id.to_string();
            return ctx.eval(&|| case.clone(), |info| check_corpus_case(info, &id, v));
        }
        let t = unhex(case["tree_hex"].as_str().unwrap_or(""));
        let l = unhex(case["layout_hex"].as_str().unwrap_or(""));
        let r = case["rich"].as_bool().unwrap_or(true);
        ctx.eval(&|| case.clone(), |info| check_rendered(info, &t, &l, r))
    }
}


// ---- exhaustive small scope over flow collection entries -----------------------------------------

/// (text, events in test-suite notation) of one flow sequence entry
const SEQ_ENTRIES: [(&str, &[&str]); 11] = [
    ("a", &["=VAL :a"]),
    ("? a : b", &["+MAP", "=VAL :a", "=VAL :b", "-MAP"]),
    ("? a", &["+MAP", "=VAL :a", "=VAL :", "-MAP"]),
    ("a: b", &["+MAP", "=VAL :a", "=VAL :b", "-MAP"]),
    ("\"q k\":v", &["+MAP", "=VAL \"q k", "=VAL :v", "-MAP"]),
    ("[x]: v", &["+MAP", "+SEQ", "=VAL :x", "-SEQ", "=VAL :v", "-MAP"]),
    ("{a: b}", &["+MAP", "=VAL :a", "=VAL :b", "-MAP"]),
    (": v", &["+MAP", "=VAL :", "=VAL :v", "-MAP"]),
    ("a:", &["+MAP", "=VAL :a", "=VAL :", "-MAP"]),
    ("? : v", &["+MAP", "=VAL :", "=VAL :v", "-MAP"]),
    ("[]", &["+SEQ", "-SEQ"]),
];

/// (text, events) of one flow mapping entry
const MAP_ENTRIES: [(&str, &[&str]); 10] = [
    ("a: b", &["=VAL :a", "=VAL :b"]),
    ("a", &["=VAL :a", "=VAL :"]),
    ("a:", &["=VAL :a", "=VAL :"]),
    (": v", &["=VAL :", "=VAL :v"]),
    ("? a : b", &["=VAL :a", "=VAL :b"]),
    ("? a", &["=VAL :a", "=VAL :"]),
    ("? : v", &["=VAL :", "=VAL :v"]),
    ("\"q\":v", &["=VAL \"q", "=VAL :v"]),
    ("[x]: y", &["+SEQ", "=VAL :x", "-SEQ", "=VAL :y"]),
    ("{a: b}: c", &["+MAP", "=VAL :a", "=VAL :b", "-MAP", "=VAL :c"]),
];

pub fn check_flow_doc(info: &mut CaseInfo, doc: &str, expected: &[String]) -> CheckResult {
    for b in [Backend::Str, Backend::Buffered] {
        let o = parse_with(b, doc);
        if let Some(e) = &o.error {
            fail!("rejects-wellformed", "{}: {}; document: {doc:?}", b.name(), e.display);
        }
        let got = ev_lines(&o);
        let same = |g: &String, e: &String| g == e || (e.ends_with(" :") && e.starts_with("=VAL") && *g == format!("{e}~"));
        if got.len() != expected.len() || !got.iter().zip(expected.iter()).all(|(g, e)| same(g, e)) {
            let n = got.len().min(expected.len());
            let at = (0..n).find(|i| !same(&got[*i], &expected[*i])).unwrap_or(n);
            fail!("events-differ", "{}: line {at}: expected {:?}, got {:?}; document: {doc:?}", b.name(), expected.get(at), got.get(at));
        }
    }
    info.nontrivial(doc);
    info.class("flow-entries-exhaustive");
    Ok(())
}

fn flow_entries_exh(ctx: &mut Ctx, sequences: bool) {
    let n = if sequences { SEQ_ENTRIES.len() } else { MAP_ENTRIES.len() };
    let mut lists: Vec<Vec<usize>> = vec![];
    for a in 0..n {
        lists.push(vec![a]);
        for b in 0..n {
            lists.push(vec![a, b]);
            for c in 0..n {
                lists.push(vec![a, b, c]);
            }
        }
    }
    for l in lists {
        let (texts, evs): (Vec<&str>, Vec<&[&str]>) = l.iter().map(|i| if sequences { SEQ_ENTRIES[*i] } else { MAP_ENTRIES[*i] }).unzip();
        let (open, close, start, end) = if sequences { ("[", "]", "+SEQ", "-SEQ") } else { ("{", "}", "+MAP", "-MAP") };
        for (pre, post, before, after) in [
            ("", "\n", vec![], vec![]),
            ("k: ", "\n", vec!["+MAP", "=VAL :k"], vec!["-MAP"]),
            ("- x\n- ", "\n", vec!["+SEQ", "=VAL :x"], vec!["-SEQ"]),
        ] {
            for sep in [", ", ","] {
                let doc = format!("{pre}{open}{}{close}{post}", texts.join(sep));
                let mut expected: Vec<String> = vec!["+STR".into(), "+DOC".into()];
                expected.extend(before.iter().map(|s| s.to_string()));
                expected.push(start.into());
                for e in &evs {
                    expected.extend(e.iter().map(|s| s.to_string()));
                }
                expected.push(end.into());
                expected.extend(after.iter().map(|s| s.to_string()));
                expected.extend(["-DOC".to_string(), "-STR".to_string()]);
                let json = || json!({"flow_doc": doc, "expected": expected});
                if let Err(f) = ctx.eval(&json, |info| check_flow_doc(info, &doc, &expected)) {
                    ctx.record(json(), &f);
                }
            }
        }
    }
}
