//! C05 — block scalars yield exactly the text YAML assigns to them (R7, block half).

use super::Property;
use crate::drive::{parse_with, Backend, Ev};
use crate::engine::{CaseInfo, CheckResult, Ctx, StreamSpec, Tier};
use crate::fail;
use proptest::prelude::*;
use saphyr_parser::ScalarStyle;
use serde_json::{json, Value};

pub struct C05P;
pub static C05: C05P = C05P;

/// content lines relative to the content indentation
#[derive(Clone, Debug, PartialEq)]
pub enum Line {
    /// non-empty text; a leading blank makes it a "more-indented" line
    Text(String),
    /// an empty line carrying `n` spaces (at most the content indentation)
    Empty(usize),
}

#[derive(Clone, Debug)]
pub struct BlockCase {
    pub folded: bool,
    /// 0 clip, 1 strip, 2 keep
    pub chomp: u8,
    pub lines: Vec<Line>,
    /// number of trailing empty lines (spaces on each)
    pub trail: Vec<usize>,
    pub explicit: bool,
    pub indicator_first: bool,
    pub header_comment: bool,
    pub ctx: usize,
    /// content indentation beyond the minimum (n + 1)
    pub extra: usize,
    /// 0 = final break, 1 = no final break after the last line, 2 = a last line of <= c spaces without break
    pub eof: u8,
    pub sibling: bool,
}

pub const CONTEXTS: [&str; 8] = ["root", "root-after-marker", "map-value", "seq-entry", "nested-seq", "compact-map-in-seq", "deep-14", "deep-126"];

/// (text before the header, n, sibling text, events before, events after the sibling/none)
fn context(ctx: usize, sibling: bool) -> (String, isize, String, Vec<Ev>, Vec<Ev>) {
    let p = |v: &str| Ev::Scalar { v: v.to_string(), style: ScalarStyle::Plain, aid: 0, tag: None };
    let (ms, me, ss, se) = (Ev::MapStart(0, None), Ev::MapEnd, Ev::SeqStart(0, None), Ev::SeqEnd);
    match ctx {
        0 | 1 => {
            let pre = if ctx == 1 { "--- ".to_string() } else { String::new() };
            let (sib, after) = if sibling { ("--- next\n".to_string(), vec![Ev::DocEnd, Ev::DocStart(true), p("next")]) } else { (String::new(), vec![]) };
            (pre, -1, sib, vec![], after)
        }
        2 => ("key: ".into(), 0, if sibling { "next: v\n".into() } else { String::new() }, vec![ms, p("key")], if sibling { vec![p("next"), p("v"), me] } else { vec![me] }),
        3 => ("- ".into(), 0, if sibling { "- x\n".into() } else { String::new() }, vec![ss], if sibling { vec![p("x"), se] } else { vec![se] }),
        4 => (
            "a:\n  b:\n    - ".into(),
            4,
            if sibling { "    - x\n".into() } else { String::new() },
            vec![ms.clone(), p("a"), ms.clone(), p("b"), ss],
            if sibling { vec![p("x"), se, me.clone(), me] } else { vec![se, me.clone(), me] },
        ),
        5 => (
            "a:\n  - k: ".into(),
            4,
            if sibling { "    k2: v\n".into() } else { String::new() },
            vec![ms.clone(), p("a"), ss, ms.clone(), p("k")],
            if sibling { vec![p("k2"), p("v"), me.clone(), se, me] } else { vec![me.clone(), se, me] },
        ),
        _ => {
            let target = if ctx == 6 { 14 } else { 126 };
            let mut pre = String::new();
            let mut before = vec![];
            let mut after = vec![];
            let mut col = 0;
            while col + 7 <= target {
                pre.push_str(&" ".repeat(col));
                pre.push_str("k:\n");
                before.push(ms.clone());
                before.push(p("k"));
                after.push(me.clone());
                col += 7;
            }
            pre.push_str(&" ".repeat(target));
            pre.push_str("key: ");
            before.push(ms.clone());
            before.push(p("key"));
            let mut tail = if sibling { vec![p("next"), p("v"), me.clone()] } else { vec![me.clone()] };
            tail.extend(after);
            (pre, target as isize, if sibling { format!("{}next: v\n", " ".repeat(target)) } else { String::new() }, before, tail)
        }
    }
}

fn more_indented(t: &str) -> bool {
    t.starts_with(' ') || t.starts_with('\t')
}

/// The value YAML assigns (8.1.1 chomping, 8.1.2 literal, 8.1.3 folded).
pub fn value(folded: bool, chomp: u8, lines: &[Line], trailing_empty: usize) -> String {
    let mut v = String::new();
    let texts: Vec<usize> = lines.iter().enumerate().filter(|(_, l)| matches!(l, Line::Text(_))).map(|(i, _)| i).collect();
    if texts.is_empty() {
        // no content: only keep retains the empty lines
        if chomp == 2 {
            for _ in 0..lines.len() + trailing_empty {
                v.push('\n');
            }
        }
        return v;
    }
    // leading empty lines
    for _ in 0..texts[0] {
        v.push('\n');
    }
    for (k, &i) in texts.iter().enumerate() {
        let Line::Text(t) = &lines[i] else { unreachable!() };
        v.push_str(t);
        if k + 1 < texts.len() {
            let j = texts[k + 1];
            let empties = j - i - 1;
            let Line::Text(u) = &lines[j] else { unreachable!() };
            let both_normal = folded && !more_indented(t) && !more_indented(u);
            if both_normal {
                if empties == 0 {
                    v.push(' ');
                } else {
                    for _ in 0..empties {
                        v.push('\n');
                    }
                }
            } else {
                for _ in 0..empties + 1 {
                    v.push('\n');
                }
            }
        }
    }
    // empty lines after the last text line inside `lines`, then the trailing ones
    let tail = lines.len() - 1 - texts[texts.len() - 1] + trailing_empty;
    match chomp {
        1 => {}
        2 => {
            v.push('\n');
            for _ in 0..tail {
                v.push('\n');
            }
        }
        _ => v.push('\n'),
    }
    v
}

pub struct Rendered {
    pub doc: String,
    pub expected: Vec<Ev>,
    /// false when the end-of-input shape is one the statement does not pin (I17)
    pub assert_value: bool,
    pub value: String,
}

/// Normalise a generated case so that it is expressible, then render it.
pub fn render(case: &BlockCase) -> Rendered {
    let ctx = case.ctx % CONTEXTS.len();
    // a sibling node can only follow a scalar that ends with a break
    let sibling = case.sibling && case.eof == 0;
    let (pre, n, sib, before, after) = context(ctx, sibling);
    let root = n < 0;
    let base = (n + 1).max(0) as usize;
    let mut c = base + case.extra;
    let mut lines = case.lines.clone();
    // `---` / `...` content lines and a tab-led first line are not expressible at content indentation 0 (I10)
    if c == 0 {
        for l in lines.iter_mut() {
            if let Line::Text(t) = l {
                if t.starts_with("---") || t.starts_with("...") {
                    *t = format!("x{t}");
                }
            }
        }
    }
    let first_text = lines.iter().position(|l| matches!(l, Line::Text(_)));
    // the first non-empty line decides the auto-detected indentation
    let mut explicit = case.explicit;
    if let Some(i) = first_text {
        let Line::Text(t) = &lines[i] else { unreachable!() };
        if t.starts_with(' ') {
            explicit = true;
        }
        if t.starts_with('\t') && c == 0 {
            c = 1;
        }
    }
    if explicit && root {
        // no explicit indicator at the top level (DESIGN: spec and scanner count from different origins there)
        explicit = false;
        if let Some(i) = first_text {
            if let Line::Text(t) = &mut lines[i] {
                *t = t.trim_start_matches(' ').to_string();
                if t.is_empty() {
                    *t = "x".into();
                }
            }
        }
    }
    if explicit && (c as isize - n) > 9 {
        c = (n + 9) as usize;
    }
    if explicit && (c as isize - n) < 1 {
        c = (n + 1) as usize;
    }
    // header
    let mut header = String::from(if case.folded { ">" } else { "|" });
    let ch = match case.chomp {
        1 => "-",
        2 => "+",
        _ => "",
    };
    let ind = if explicit { format!("{}", c as isize - n) } else { String::new() };
    if case.indicator_first {
        header.push_str(&ind);
        header.push_str(ch);
    } else {
        header.push_str(ch);
        header.push_str(&ind);
    }
    if case.header_comment {
        header.push_str(" # header comment");
    }
    let mut doc = pre;
    doc.push_str(&header);
    doc.push('\n');
    let nlines = lines.len();
    let total_tail = case.trail.len();
    for (k, l) in lines.iter().enumerate() {
        match l {
            Line::Text(t) => {
                doc.push_str(&" ".repeat(c));
                doc.push_str(t);
            }
            Line::Empty(s) => {
                // leading empty lines must not be longer than the first content line's indentation
                doc.push_str(&" ".repeat((*s).min(c)));
            }
        }
        let last = k + 1 == nlines && total_tail == 0;
        if !(last && case.eof == 1 && !sibling) {
            doc.push('\n');
        }
    }
    for (k, s) in case.trail.iter().enumerate() {
        doc.push_str(&" ".repeat((*s).min(c)));
        let last = k + 1 == total_tail;
        if !(last && case.eof == 1 && !sibling) {
            doc.push('\n');
        }
    }
    let mut assert_value = true;
    let mut trailing = total_tail;
    if !sibling {
        match case.eof {
            2 => {
                // a last line of spaces only, without a break
                let sp = if c == 0 { 0 } else { 1 + (case.extra % c.max(1)).min(c - 1) };
                if sp > 0 {
                    doc.push_str(&" ".repeat(sp));
                    // keep: the statement does not pin whether that line counts (I17)
                    if case.chomp == 2 {
                        assert_value = false;
                    }
                }
            }
            1 => {
                // the last written line has no break: for an Empty / trailing empty last line this
                // merely removes one (virtual) empty line from the tail under keep
                let last_is_empty = if total_tail > 0 { true } else { matches!(lines.last(), Some(Line::Empty(_)) | None) };
                if last_is_empty && (total_tail > 0 || !lines.is_empty()) {
                    // an unterminated empty last line: only keep could see it, and whether it counts
                    // depends on its width (I17) -> not asserted under keep
                    if case.chomp == 2 {
                        assert_value = false;
                    }
                    let _ = &mut trailing;
                }
            }
            _ => {}
        }
    } else {
        doc.push_str(&sib);
    }
    let v = value(case.folded, case.chomp, &lines, trailing);
    let style = if case.folded { ScalarStyle::Folded } else { ScalarStyle::Literal };
    let mut expected = vec![Ev::StreamStart, Ev::DocStart(ctx == 1)];
    expected.extend(before);
    expected.push(Ev::Scalar { v: v.clone(), style, aid: 0, tag: None });
    expected.extend(after);
    expected.extend([Ev::DocEnd, Ev::StreamEnd]);
    Rendered { doc, expected, assert_value, value: v }
}

pub fn check(info: &mut CaseInfo, case: &BlockCase) -> CheckResult {
    let r = render(case);
    let ctx = case.ctx % CONTEXTS.len();
    for b in [Backend::Str, Backend::Buffered, Backend::Test(8), Backend::Test(128)] {
        let o = parse_with(b, &r.doc);
        if let Some(e) = &o.error {
            fail!("rejects-wellformed", "{} / {}: {}; document: {:?}", CONTEXTS[ctx], b.name(), e.display, r.doc);
        }
        let got = o.evs();
        let n = got.len().min(r.expected.len());
        for i in 0..n {
            if got[i] != r.expected[i] {
                let is_target = matches!(&r.expected[i], Ev::Scalar { style, .. } if matches!(style, ScalarStyle::Literal | ScalarStyle::Folded));
                if is_target && !r.assert_value {
                    // style must still match
                    if matches!((&got[i], &r.expected[i]), (Ev::Scalar { style: a, .. }, Ev::Scalar { style: b, .. }) if a == b) {
                        continue;
                    }
                }
                let cat = if is_target { "value-differs" } else { "events-differ" };
                fail!(cat, "{} / {}: event #{i}: got {:?}, expected {:?}; document: {:?}", CONTEXTS[ctx], b.name(), got[i].short(), r.expected[i].short(), r.doc);
            }
        }
        if got.len() != r.expected.len() {
            fail!("events-differ", "{} / {}: {} events, expected {}; document: {:?}", CONTEXTS[ctx], b.name(), got.len(), r.expected.len(), r.doc);
        }
    }
    // presentation variants that must not change any event: CR LF and lone CR line breaks, and a
    // tab instead of the blank after a document marker (root contexts)
    let mut variants: Vec<(&str, String)> = vec![];
    if !r.doc.contains('\r') {
        variants.push(("crlf", r.doc.replace('\n', "\r\n")));
        variants.push(("cr", r.doc.replace('\n', "\r")));
    }
    if ctx <= 1 && (r.doc.starts_with("--- ") || r.doc.contains("\n--- ")) {
        let t = r.doc.replace("\n--- ", "\n---\t");
        let t = if let Some(rest) = t.strip_prefix("--- ") { format!("---\t{rest}") } else { t };
        variants.push(("tab-after-marker", t));
    }
    if r.doc.contains(" # header comment") {
        // the separation before a header comment is blanks *or tabs*
        variants.push(("tab-before-header-comment", r.doc.replace(" # header comment", "\t# header comment")));
        variants.push(("blanks-and-tabs-before-header-comment", r.doc.replace(" # header comment", " \t # header comment")));
    }
    for (name, doc) in &variants {
        for b in [Backend::Str, Backend::Buffered] {
            let o = parse_with(b, doc);
            if let Some(e) = &o.error {
                fail!("variant-rejected", "{} / {} / {name}: {}; document: {:?}", CONTEXTS[ctx], b.name(), e.display, doc);
            }
            let got = o.evs();
            let same = got.len() == r.expected.len()
                && got.iter().zip(&r.expected).all(|(g, x)| {
                    g == x || (!r.assert_value && matches!((g, x), (Ev::Scalar { style: a, .. }, Ev::Scalar { style: b, .. }) if a == b && matches!(a, ScalarStyle::Literal | ScalarStyle::Folded)))
                });
            if !same {
                let at = (0..got.len().min(r.expected.len())).find(|i| got[*i] != r.expected[*i]).unwrap_or(got.len().min(r.expected.len()));
                fail!("variant-differs", "{} / {} / {name}: event #{at}: got {:?}, expected {:?}; document: {:?}", CONTEXTS[ctx], b.name(), got.get(at).map(|e| e.short()), r.expected.get(at).map(|e| e.short()), doc);
            }
        }
        info.class(match *name {
            "crlf" => "variant:crlf",
            "cr" => "variant:cr",
            "tab-before-header-comment" | "blanks-and-tabs-before-header-comment" => "variant:tabs-before-header-comment",
            _ => "variant:tab-after-marker",
        });
    }
    let texts = case.lines.iter().filter(|l| matches!(l, Line::Text(_))).count();
    let blank_or_more = case.lines.iter().any(|l| matches!(l, Line::Empty(_)) || matches!(l, Line::Text(t) if more_indented(t)));
    if texts >= 2 || blank_or_more || case.chomp != 0 || case.explicit || case.eof != 0 {
        info.nontrivial(&r.doc);
    }
    info.class(CONTEXTS[ctx]);
    info.class(if case.folded { "folded" } else { "literal" });
    info.class(match case.chomp {
        1 => "strip",
        2 => "keep",
        _ => "clip",
    });
    info.class_if(case.explicit, "explicit-indicator-requested");
    info.class_if(blank_or_more, "blank-or-more-indented-line");
    info.class_if(case.eof == 1, "eof:no-final-break");
    info.class_if(case.eof == 2, "eof:spaces-only-last-line");
    info.class_if(case.eof == 0 && case.sibling, "sibling-follows");
    info.class_if(!r.assert_value, "value-not-asserted(I17)");
    info.class_if(texts == 0, "no-content-line");
    Ok(())
}

// ---- generation --------------------------------------------------------------------------------

pub const TEXTS: &[&str] = &[
    "text", "more text", "- x", "k: v", "# c", "---", "...", "a  b", "é 中", "x\ty", "trailing  ", "\tt", " sp", "  sp2", "|", "> y", "\"q\"", "'s", "[a", "%d", " ", "  ",
    "\t", "x", "--- a", "? k", ": v", "&a *b", "!t", "@`",
];

fn line_strategy() -> impl Strategy<Value = Line> {
    crate::oneof![6 => proptest::sample::select(TEXTS).prop_map(|t| Line::Text(t.to_string())), 1 => "[a-z ]{1,8}".prop_map(|t| Line::Text(if t.trim().is_empty() { "x".into() } else { t })), 3 => (0usize..4).prop_map(Line::Empty)]
}

pub fn case_strategy() -> impl Strategy<Value = BlockCase> {
    (
        (any::<bool>(), 0u8..3, proptest::collection::vec(line_strategy(), 0..6), proptest::collection::vec(0usize..4, 0..4)),
        (proptest::bool::weighted(0.3), any::<bool>(), proptest::bool::weighted(0.15), 0usize..CONTEXTS.len(), crate::oneof![3 => Just(0usize), 2 => 1usize..4, 1 => 4usize..12], crate::oneof![4 => Just(0u8), 1 => Just(1u8), 1 => Just(2u8)], any::<bool>()),
    )
        .prop_map(|((folded, chomp, lines, trail), (explicit, indicator_first, header_comment, ctx, extra, eof, sibling))| BlockCase {
            folded,
            chomp,
            lines,
            trail,
            explicit,
            indicator_first,
            header_comment,
            ctx,
            extra,
            eof,
            sibling,
        })
}

pub fn case_json(c: &BlockCase) -> Value {
    let r = render(c);
    json!({
        "folded": c.folded, "chomp": c.chomp, "explicit": c.explicit, "indicator_first": c.indicator_first, "header_comment": c.header_comment,
        "ctx": c.ctx, "extra": c.extra, "eof": c.eof, "sibling": c.sibling, "trail": c.trail,
        "lines": c.lines.iter().map(|l| match l { Line::Text(t) => json!({"t": t}), Line::Empty(n) => json!({"e": n}) }).collect::<Vec<_>>(),
        "document": r.doc, "value": r.value,
    })
}

fn case_from_json(v: &Value) -> BlockCase {
    BlockCase {
        folded: v["folded"].as_bool().unwrap_or(false),
        chomp: v["chomp"].as_u64().unwrap_or(0) as u8,
        explicit: v["explicit"].as_bool().unwrap_or(false),
        indicator_first: v["indicator_first"].as_bool().unwrap_or(false),
        header_comment: v["header_comment"].as_bool().unwrap_or(false),
        ctx: v["ctx"].as_u64().unwrap_or(0) as usize,
        extra: v["extra"].as_u64().unwrap_or(0) as usize,
        eof: v["eof"].as_u64().unwrap_or(0) as u8,
        sibling: v["sibling"].as_bool().unwrap_or(false),
        trail: v["trail"].as_array().map(|a| a.iter().map(|x| x.as_u64().unwrap_or(0) as usize).collect()).unwrap_or_default(),
        lines: v["lines"]
            .as_array()
            .map(|a| a.iter().map(|l| if let Some(t) = l.get("t") { Line::Text(t.as_str().unwrap_or("x").to_string()) } else { Line::Empty(l["e"].as_u64().unwrap_or(0) as usize) }).collect())
            .unwrap_or_default(),
    }
}

/// bounded exhaustive scope: all line lists of <= L lines over 6 line shapes
const SHAPES: [&str; 6] = ["text", "", " more", "- x", "# c", "\tt"];

fn exh_lines(mut idx: u64, len: usize) -> Vec<Line> {
    let mut v = vec![];
    for _ in 0..len {
        let s = SHAPES[(idx % 6) as usize];
        idx /= 6;
        v.push(if s.is_empty() { Line::Empty(0) } else { Line::Text(s.to_string()) });
    }
    v
}

fn exh_max_len(tier: Tier) -> usize {
    tier.pick(4, 5)
}

const BLOCK: u64 = 5000;
fn cases(tier: Tier) -> u64 {
    tier.pick(400_000, 2_000_000)
}

impl Property for C05P {
    fn id(&self) -> &'static str {
        "C05"
    }
    fn rule(&self) -> String {
        "Block scalar cases: a list of 0..5 content lines (30 texts: plain words, lines that look like sequence entries, mapping keys, \
         comments, document markers, flow / quote / directive starts, interior and trailing blanks, tab-led, space-led (more-indented), \
         whitespace-only; empty lines carrying 0..3 spaces), literal / folded, strip / clip / keep, 0..3 trailing empty lines, explicit \
         indentation indicator (requested, or forced when the first non-empty line starts with a space; never at the top level), indicator \
         order, header comment, content indentation n+1+{0..11}, 8 parent contexts (root, after '---', mapping value, sequence entry, nested \
         sequence, compact mapping in a sequence, parents at indentation 14 and 126 to cross both buffer thresholds), followed by a sibling \
         node or by end of input with three shapes (final break, none, a last line of spaces only). An exhaustive stream enumerates every \
         line list of <= 4 (quick) / <= 5 (thorough) lines over 6 line shapes x 2 styles x 3 chompings x 4 contexts x 3 end shapes. \
         Oracle: value function written from YAML 1.2.2 8.1 (chomping, literal, folded with more-indented and empty lines); whole event \
         list asserted on StrInput, BufferedInput, TestInput<8>, TestInput<128>; the same events are required of the CR LF and lone-CR \
         versions of every document, of the versions with tabs before a header comment and, in the root contexts, of the version with a tab after each document marker. Non-trivial = >= 2 content lines or a blank / \
         more-indented line or non-clip chomping or explicit indicator or a missing final break; distinct by document text."
            .into()
    }
    fn assumptions(&self) -> Vec<String> {
        vec![
            "'---' / '...' content lines are only generated at content indentation > 0 (I10)".into(),
            "under keep, an unterminated last line of blanks is not value-asserted (I17); style and all other events still are".into(),
            "no explicit indentation indicator on top-level scalars: the specification counts it from n = -1, the scanner from 0, and neither the statement nor the test suite pins it".into(),
        ]
    }
    fn streams(&self, tier: Tier) -> Vec<StreamSpec> {
        let l = exh_max_len(tier);
        let total: u64 = (0..=l as u32).map(|k| 6u64.pow(k)).sum();
        vec![
            StreamSpec::new("cases", cases(tier).div_ceil(BLOCK), false, &format!("{} generated block scalar cases", cases(tier))),
            StreamSpec::new("exhaustive", total.div_ceil(200), true, &format!("{total} line lists of <= {l} lines over 6 shapes x 2 styles x 3 chompings x 4 contexts x 3 end shapes (+ sibling)")),
        ]
    }
    fn run_block(&self, ctx: &mut Ctx, stream: &str, block: u64) {
        if stream == "exhaustive" {
            let l = exh_max_len(ctx.tier);
            // index -> (len, idx)
            let mut lists = vec![];
            let mut global = 0u64;
            for len in 0..=l {
                for idx in 0..6u64.pow(len as u32) {
                    if global / 200 == block {
                        lists.push(exh_lines(idx, len));
                    }
                    global += 1;
                }
            }
            for lines in lists {
                for folded in [false, true] {
                    for chomp in 0..3u8 {
                        for c in [0usize, 2, 3, 6] {
                            for (eof, sibling) in [(0u8, true), (0, false), (1, false), (2, false)] {
                                let case = BlockCase { folded, chomp, lines: lines.clone(), trail: vec![], explicit: false, indicator_first: false, header_comment: false, ctx: c, extra: if c == 0 { 0 } else { 1 }, eof, sibling };
                                let json = || case_json(&case);
                                if let Err(f) = ctx.eval(&json, |info| check(info, &case)) {
                                    ctx.record(json(), &f);
                                }
                            }
                        }
                    }
                }
            }
            return;
        }
        let total = cases(ctx.tier);
        let n = (total - (block * BLOCK).min(total)).min(BLOCK) as u32;
        crate::engine::run_proptest(ctx, case_strategy(), n, case_json, |ctx, c| ctx.eval(&|| case_json(c), |info| check(info, c)));
    }
    fn replay(&self, ctx: &mut Ctx, case: &Value) -> CheckResult {
        let c = case_from_json(case);
        ctx.eval(&|| case.clone(), |info| check(info, &c))
    }
}
