//! C07 — loaded documents mirror the event stream exactly.

use super::Property;
use crate::drive::{push_with, Backend, Ev};
use crate::engine::{case_text, text_case, CaseInfo, CheckResult, Ctx, StreamSpec, Tier};
use crate::gen::{self, TextPlan};
use crate::oracle::fold::{c07_resolver, fold, m_of_marked, m_of_marked_owned, m_of_owned, m_of_yaml, M};
use crate::{ensure, fail};
use saphyr::{LoadableYamlNode, MarkedYaml, MarkedYamlOwned, Yaml, YamlOwned};
use saphyr_parser::Parser;
use serde_json::Value;

pub struct C07P;
pub static C07: C07P = C07P;

fn plan(tier: Tier) -> TextPlan {
    gen::plan(tier, tier.pick(1.0, 1.5))
}

pub fn check_input(info: &mut CaseInfo, input: &str) -> CheckResult {
    // the loaders use BufferedInput through load_from_str; events through the same push driver
    let o = push_with(Backend::Buffered, input);
    let loaded = Yaml::load_from_str(input);
    match (&o.error, &loaded) {
        (Some(e), Err(le)) => {
            ensure!(e.display == le.to_string(), "error-differs", "parser error {:?} but load_from_str error {:?}", e.display, le.to_string());
            info.class("rejected");
            return Ok(());
        }
        (Some(e), Ok(d)) => fail!("load-accepts-rejected", "the parser reports {:?} but load_from_str returned {} documents", e.display, d.len()),
        (None, Err(le)) => fail!("load-rejects-accepted", "the parser accepts the input but load_from_str fails: {le}"),
        (None, Ok(_)) => {}
    }
    let docs = loaded.unwrap();
    let evs: Vec<Ev> = o.evs();
    let expect_last = fold(&evs, &c07_resolver, true).map_err(|m| crate::engine::Fail::new("fold", m))?;
    let got: Vec<M> = docs.iter().map(m_of_yaml).collect();
    if got != expect_last {
        let expect_first = fold(&evs, &c07_resolver, false).unwrap();
        if got != expect_first {
            ensure!(got.len() == expect_last.len(), "doc-count", "{} documents loaded, the event stream has {}", got.len(), expect_last.len());
            let i = (0..got.len()).find(|i| got[*i] != expect_last[*i]).unwrap();
            fail!("tree-differs", "document #{i}: loaded {} but the event stream folds to {}", got[i].short(), expect_last[i].short());
        }
    }
    // the other node types through their own entry points
    let owned: Vec<M> = YamlOwned::load_from_iter(input.chars()).map_err(|e| crate::engine::Fail::new("load-rejects-accepted", format!("YamlOwned: {e}")))?.iter().map(m_of_owned).collect();
    ensure!(owned == got, "owned-differs", "YamlOwned::load_from_iter differs from Yaml::load_from_str");
    let mut p = Parser::new_from_str(input);
    let marked: Vec<M> = MarkedYaml::load_from_parser(&mut p).map_err(|e| crate::engine::Fail::new("load-rejects-accepted", format!("MarkedYaml: {e}")))?.iter().map(m_of_marked).collect();
    ensure!(marked == got, "marked-differs", "MarkedYaml::load_from_parser(StrInput) differs from Yaml::load_from_str");
    let mo: Vec<M> = MarkedYamlOwned::load_from_str(input).map_err(|e| crate::engine::Fail::new("load-rejects-accepted", format!("MarkedYamlOwned: {e}")))?.iter().map(m_of_marked_owned).collect();
    ensure!(mo == got, "marked-differs", "MarkedYamlOwned::load_from_str differs from Yaml::load_from_str");

    let interesting = got.iter().any(|d| d.any(&|m| matches!(m, M::Map(p) if p.len() >= 2 || p.iter().any(|(k, _)| matches!(k, M::Seq(_) | M::Map(_))))))
        || evs.iter().any(|e| matches!(e, Ev::Alias(_)));
    if interesting {
        info.nontrivial(input);
    }
    info.class("accepted");
    info.class_if(evs.iter().any(|e| matches!(e, Ev::Alias(_))), "alias");
    info.class_if(got.iter().any(|d| d.any(&|m| matches!(m, M::Bad))), "badvalue");
    info.class_if(got.len() >= 2, "multi-doc");
    let n_pairs_ev = evs.iter().filter(|e| matches!(e, Ev::MapStart(..))).count();
    info.class_if(n_pairs_ev > 0, "has-mapping");
    Ok(())
}

impl Property for C07P {
    fn id(&self) -> &'static str {
        "C07"
    }
    fn rule(&self) -> String {
        "C01's text input spaces (exhaustive small scope, token soups, line soups, mutated corpus, corpus). For every input: events are \
         collected through Parser::load (the driver the loaders use) and folded by an independent reference loader (strict key / value \
         alternation by position, alias = copy of the completed anchored node else BadValue, later duplicate key wins at its first or last \
         position, scalars resolved by the library's own resolver so that the loader is judged, not the resolver); the result must equal \
         Yaml::load_from_str, YamlOwned::load_from_iter, MarkedYaml::load_from_parser and MarkedYamlOwned::load_from_str document by \
         document; a load fails iff the push parse fails, with the same error. Non-trivial = accepted and (a mapping with >= 2 pairs or \
         a collection key or an alias); distinct by input hash."
            .into()
    }
    fn assumptions(&self) -> Vec<String> {
        vec!["a duplicated key may sit at its first or last position (I3); only 'later value wins' is asserted".into()]
    }
    fn streams(&self, tier: Tier) -> Vec<StreamSpec> {
        plan(tier).streams()
    }
    fn run_block(&self, ctx: &mut Ctx, stream: &str, block: u64) {
        plan(ctx.tier).run_block(ctx, stream, block, &|info, s| check_input(info, s));
    }
    fn replay(&self, ctx: &mut Ctx, case: &Value) -> CheckResult {
        let s = case_text(case);
        ctx.eval(&|| text_case(&s), |info| check_input(info, &s))
    }
}
