//! C09 — emit then load returns the same tree (round trip).

use super::Property;
use crate::engine::{CaseInfo, CheckResult, Ctx, StreamSpec, Tier};
use crate::gen::{exh_total, ExhIter};
use crate::oracle::core::{classify, Core};
use crate::{ensure, fail};
use hashlink::LinkedHashMap;
use ordered_float::OrderedFloat;
use proptest::prelude::*;
use saphyr::{LoadableYamlNode, Scalar, Yaml, YamlEmitter};
use serde_json::{json, Value};

pub struct C09P;
pub static C09: C09P = C09P;

pub const EMIT30: &[&str] = &[
    "a", "1", " ", "\n", "\t", ":", "-", "#", "'", "\"", "[", "]", "{", "}", ",", "?", "&", "*", "!", "|", ">", "%", "@", "`", "~", ".", "0o", "e", "+",
    "\\",
];

/// Owned model of a value tree (what the generators produce and replay files store).
#[derive(Clone, Debug, PartialEq)]
pub enum V {
    Null,
    Bool(bool),
    Int(i64),
    Float(f64),
    Str(String),
    Seq(Vec<V>),
    Map(Vec<(V, V)>),
}

impl V {
    pub fn to_yaml(&self) -> Yaml<'static> {
        match self {
            V::Null => Yaml::Value(Scalar::Null),
            V::Bool(b) => Yaml::Value(Scalar::Boolean(*b)),
            V::Int(i) => Yaml::Value(Scalar::Integer(*i)),
            V::Float(f) => Yaml::Value(Scalar::FloatingPoint(OrderedFloat(*f))),
            V::Str(s) => Yaml::Value(Scalar::String(s.clone().into())),
            V::Seq(v) => Yaml::Sequence(v.iter().map(|x| x.to_yaml()).collect()),
            V::Map(m) => {
                let mut h = LinkedHashMap::new();
                for (k, v) in m {
                    let k = k.to_yaml();
                    // distinct keys by construction: a later duplicate is skipped
                    if !h.contains_key(&k) {
                        h.insert(k, v.to_yaml());
                    }
                }
                Yaml::Mapping(h)
            }
        }
    }
    pub fn to_json(&self) -> Value {
        match self {
            V::Null => json!({"t": "null"}),
            V::Bool(b) => json!({"t": "bool", "v": b}),
            V::Int(i) => json!({"t": "int", "v": i.to_string()}),
            V::Float(f) => json!({"t": "float", "bits": format!("{:016x}", f.to_bits()), "v": format!("{f:?}")}),
            V::Str(s) => json!({"t": "str", "v": s, "hex": crate::engine::hex(s.as_bytes())}),
            V::Seq(v) => json!({"t": "seq", "v": v.iter().map(|x| x.to_json()).collect::<Vec<_>>()}),
            V::Map(m) => json!({"t": "map", "v": m.iter().map(|(k, v)| json!([k.to_json(), v.to_json()])).collect::<Vec<_>>()}),
        }
    }
    pub fn from_json(j: &Value) -> V {
        match j["t"].as_str().unwrap_or("null") {
            "bool" => V::Bool(j["v"].as_bool().unwrap_or(false)),
            "int" => V::Int(j["v"].as_str().and_then(|s| s.parse().ok()).unwrap_or(0)),
            "float" => V::Float(f64::from_bits(u64::from_str_radix(j["bits"].as_str().unwrap_or("0"), 16).unwrap_or(0))),
            "str" => V::Str(
                j["hex"].as_str().and_then(|h| String::from_utf8(crate::engine::unhex(h)).ok()).unwrap_or_else(|| j["v"].as_str().unwrap_or("").to_string()),
            ),
            "seq" => V::Seq(j["v"].as_array().map(|a| a.iter().map(V::from_json).collect()).unwrap_or_default()),
            "map" => V::Map(j["v"].as_array().map(|a| a.iter().map(|p| (V::from_json(&p[0]), V::from_json(&p[1]))).collect()).unwrap_or_default()),
            _ => V::Null,
        }
    }
    pub fn depth(&self) -> usize {
        match self {
            V::Seq(v) => 1 + v.iter().map(|x| x.depth()).max().unwrap_or(0),
            V::Map(m) => 1 + m.iter().map(|(k, v)| k.depth().max(v.depth())).max().unwrap_or(0),
            _ => 0,
        }
    }
    fn any(&self, f: &dyn Fn(&V) -> bool) -> bool {
        if f(self) {
            return true;
        }
        match self {
            V::Seq(v) => v.iter().any(|x| x.any(f)),
            V::Map(m) => m.iter().any(|(k, v)| k.any(f) || v.any(f)),
            _ => false,
        }
    }
}

pub fn emit(y: &Yaml, compact: bool, multiline: bool) -> Result<String, String> {
    let mut out = String::new();
    let mut e = YamlEmitter::new(&mut out);
    e.compact(compact);
    e.multiline_strings(multiline);
    e.dump(y).map_err(|e| format!("{e}"))?;
    Ok(out)
}

/// structural equality: same variants everywhere, library equality on scalars, same order
pub fn same(a: &Yaml, b: &Yaml) -> Result<(), String> {
    match (a, b) {
        (Yaml::Value(x), Yaml::Value(y)) => {
            if std::mem::discriminant(x) != std::mem::discriminant(y) || x != y {
                return Err(format!("scalar {x:?} vs {y:?}"));
            }
            Ok(())
        }
        (Yaml::Sequence(x), Yaml::Sequence(y)) => {
            if x.len() != y.len() {
                return Err(format!("sequence length {} vs {}", x.len(), y.len()));
            }
            for (p, q) in x.iter().zip(y) {
                same(p, q)?;
            }
            Ok(())
        }
        (Yaml::Mapping(x), Yaml::Mapping(y)) => {
            if x.len() != y.len() {
                return Err(format!("mapping size {} vs {}", x.len(), y.len()));
            }
            for ((k1, v1), (k2, v2)) in x.iter().zip(y.iter()) {
                same(k1, k2).map_err(|e| format!("key: {e}"))?;
                same(v1, v2).map_err(|e| format!("value of key {k1:?}: {e}"))?;
            }
            Ok(())
        }
        _ => Err(format!("node kind {} vs {}", kind(a), kind(b))),
    }
}

fn kind(y: &Yaml) -> String {
    match y {
        Yaml::Value(s) => format!("{s:?}"),
        Yaml::Sequence(_) => "Sequence".into(),
        Yaml::Mapping(_) => "Mapping".into(),
        other => format!("{other:?}"),
    }
}

pub fn check_tree(v: &V, compact: bool, multiline: bool) -> CheckResult {
    let y = v.to_yaml();
    let text = match emit(&y, compact, multiline) {
        Ok(t) => t,
        Err(e) => fail!("emit-error", "emitter failed: {e}"),
    };
    let docs = match Yaml::load_from_str(&text) {
        Ok(d) => d,
        Err(e) => fail!("reload-error", "emitted text does not load: {e}; text: {text:?}"),
    };
    ensure!(docs.len() == 1, "doc-count", "emitted text loads as {} documents; text: {text:?}", docs.len());
    if let Err(m) = same(&y, &docs[0]) {
        fail!("reload-differs", "original vs reloaded: {m}; text: {text:?}");
    }
    let text2 = emit(&docs[0], compact, multiline).unwrap_or_default();
    ensure!(text2 == text, "re-emit-differs", "emitting the reloaded tree gives {text2:?}, first emission {text:?}");
    Ok(())
}

fn needs_care(s: &str) -> bool {
    classify(s) != Core::Str
        || s.is_empty()
        || s.chars().any(|c| !c.is_ascii_alphanumeric())
}

fn nontrivial(v: &V) -> bool {
    v.depth() >= 3
        || v.any(&|x| match x {
            V::Str(s) => needs_care(s),
            V::Float(_) => true,
            V::Map(m) => m.iter().any(|(k, _)| matches!(k, V::Seq(_) | V::Map(_))),
            _ => false,
        })
}

// ---- generators --------------------------------------------------------------------------------

fn string_strategy() -> impl Strategy<Value = String> {
    crate::oneof![
        4 => proptest::collection::vec(proptest::sample::select(EMIT30), 0..6).prop_map(|v| v.concat()),
        3 => crate::props::c08::random_text(),
        2 => "\\PC{0,20}",
        2 => "[ -~\\n\\t]{0,24}",
        1 => proptest::collection::vec(any::<char>(), 0..8).prop_map(|v| v.into_iter().collect::<String>()),
        1 => "[a-z \\n]{0,40}",
        // medium strings dense in characters that are escaped with 6 characters each: the quoted
        // form crosses the 1024-character implicit key limit long before the string does
        1 => (100usize..300, proptest::sample::select(vec!["\u{1}", "\u{2}a", "\u{1f}\u{10}", "\u{0}", "\u{e}x\u{f}", "\"\u{3}"])).prop_map(|(n, u)| u.repeat(n / u.len() + 1)),
        // long strings: cross the 1024-character implicit key limit
        1 => (1000usize..2500, proptest::sample::select(vec!["a", "ab ", "é", "x\"", "0"])).prop_map(|(n, u)| u.repeat(n / u.len() + 1)),
        1 => proptest::sample::select(vec!["---", "...", "--- a", "... ", "- a", "? a", ": a", "a: b", "a #b", "#a", " a", "a ", "\u{feff}a", "a\u{85}b", "a\u{2028}b", "\u{7f}", "\u{0}", "\r", "a\rb", "\r\n", "é", "😀"]).prop_map(|s| s.to_string()),
    ]
}

fn leaf() -> impl Strategy<Value = V> {
    crate::oneof![
        1 => Just(V::Null),
        1 => any::<bool>().prop_map(V::Bool),
        2 => crate::oneof![any::<i64>(), Just(i64::MIN), Just(i64::MAX), Just(0i64), -300i64..300].prop_map(V::Int),
        3 => crate::oneof![
            crate::engine::any_f64(),
            (-1000i64..1000).prop_map(|i| i as f64),
            (-100000i64..100000).prop_map(|i| i as f64 / 100.0),
            proptest::sample::select(vec![0.0, -0.0, 1.0, -1.0, 1e16, 1e15, 1e21, 1e22, 1e-7, 1e300, -1e300, f64::MIN_POSITIVE, 5e-324, f64::MAX, f64::MIN, f64::INFINITY, f64::NEG_INFINITY, f64::NAN, 0.1, 1.5e-10, 123456789012345680.0, 9007199254740993.0]),
        ].prop_map(V::Float),
        6 => string_strategy().prop_map(V::Str),
    ]
}

pub fn tree_strategy() -> impl Strategy<Value = V> {
    crate::engine::recursive(leaf().boxed(), 5, 40, 4, |inner| {
        crate::oneof![
            2 => proptest::collection::vec(inner.clone(), 0..4).prop_map(V::Seq),
            3 => proptest::collection::vec((crate::oneof![3 => leaf(), 1 => inner.clone()], inner.clone()), 0..4).prop_map(V::Map),
        ]
    })
}

pub const POSITIONS: [&str; 4] = ["root", "seq-item", "map-key", "map-value"];

pub fn place(s: &str, pos: usize) -> V {
    let v = V::Str(s.to_string());
    match pos {
        0 => v,
        1 => V::Seq(vec![V::Str("x".into()), v, V::Int(1)]),
        2 => V::Map(vec![(V::Str("k0".into()), V::Int(0)), (v, V::Str("val".into())), (V::Str("k2".into()), V::Null)]),
        _ => V::Map(vec![(V::Str("k0".into()), V::Int(0)), (V::Str("key".into()), v), (V::Str("k2".into()), V::Null)]),
    }
}

pub const WRAPPED_LEAVES: &[&str] = &["text", "a\nb", "a\n\nb\n", "x\n  y\n", " lead\nz", "l1\nl2\nl3", "a\n \nb", "tail \nx\n\n"];

/// `leaf` under `depth` wrapping collections: pattern 0 = sequences, 1 = mappings, 2 = alternating
pub fn wrap_leaf(leaf: &str, depth: usize, pattern: u8) -> V {
    let mut v = V::Str(leaf.to_string());
    for i in 0..depth {
        let map = match pattern {
            0 => false,
            1 => true,
            _ => i % 2 == 0,
        };
        v = if map { V::Map(vec![(V::Str(format!("k{i}")), v)]) } else { V::Seq(vec![v]) };
    }
    v
}

pub fn case_json(v: &V, compact: bool, multiline: bool) -> Value {
    json!({"tree": v.to_json(), "compact": compact, "multiline_strings": multiline})
}

fn exh_len(tier: Tier) -> u32 {
    tier.pick(3, 4)
}
const EXH_BLOCK: u64 = 4000;
const RAND_BLOCK: u64 = 6000;
fn rand_cases(tier: Tier) -> u64 {
    tier.pick(400_000, 2_000_000)
}

impl Property for C09P {
    fn id(&self) -> &'static str {
        "C09"
    }
    fn rule(&self) -> String {
        "Value trees: (a) every string up to the stated length over a 30-symbol alphabet of indicators, blanks, breaks, quotes, digits and \
         type-like fragments, placed as root, sequence item, mapping key and mapping value; (b) proptest prop_recursive trees of nulls, \
         booleans, i64 (boundaries), f64 (integral, subnormal, huge, +-0, +-inf, NaN), strings (alphabet mixes, core-schema look-alikes, \
         Unicode, control characters, 1000..2500-char strings), sequences and mappings with scalar and collection keys, depth <= 5; \
         (c) single- and multi-line strings under 0..24 wrapping collections. \
         Each under compact on/off x multiline_strings on/off. Oracle: emit -> Yaml::load_from_str gives exactly one document that is \
         structurally equal (same variants, library equality on scalars, same order) and re-emits to the same text. \
         Non-trivial = contains a string that is not purely alphanumeric, or a float, or a collection key, or depth >= 3; distinct by (tree, settings)."
            .into()
    }
    fn assumptions(&self) -> Vec<String> {
        vec!["domain excludes BadValue / Alias / Representation nodes (I9)".into(), "mapping keys are distinct by construction".into()]
    }
    fn streams(&self, tier: Tier) -> Vec<StreamSpec> {
        let n = exh_total(30, exh_len(tier));
        vec![
            StreamSpec::new("exh-strings", n.div_ceil(EXH_BLOCK), true, &format!("every string of length <= {} over 30 symbols ({n}) x 4 positions x 4 emitter settings", exh_len(tier))),
            StreamSpec::new("trees", rand_cases(tier).div_ceil(RAND_BLOCK), false, &format!("{} proptest value trees x a generated emitter setting", rand_cases(tier))),
            StreamSpec::new("wrapped", 1, true, &format!("{} leaf strings (single- and multi-line) under 0..24 wrapping collections (all sequences / all mappings / alternating) x 4 emitter settings: block scalars at every indentation up to 48 columns", WRAPPED_LEAVES.len())),
        ]
    }
    fn run_block(&self, ctx: &mut Ctx, stream: &str, block: u64) {
        if stream == "exh-strings" {
            let lo = block * EXH_BLOCK;
            for s in ExhIter::new(EMIT30, exh_len(ctx.tier), lo, lo + EXH_BLOCK) {
                for pos in 0..4 {
                    let v = place(&s, pos);
                    for (compact, multiline) in [(true, false), (false, false), (true, true), (false, true)] {
                        let r = ctx.eval(&|| case_json(&v, compact, multiline), |info: &mut CaseInfo| {
                            if needs_care(&s) {
                                info.nontrivial(&(s.as_str(), pos, compact, multiline));
                            }
                            check_tree(&v, compact, multiline)
                        });
                        if let Err(f) = r {
                            ctx.record(case_json(&v, compact, multiline), &f);
                        }
                    }
                }
            }
            return;
        }
        if stream == "wrapped" {
            for leaf in WRAPPED_LEAVES {
                for depth in 0..=24usize {
                    for pattern in 0..3u8 {
                        let v = wrap_leaf(leaf, depth, pattern);
                        for (compact, multiline) in [(true, false), (false, false), (true, true), (false, true)] {
                            let r = ctx.eval(&|| case_json(&v, compact, multiline), |info: &mut CaseInfo| {
                                info.nontrivial(&(leaf, depth, pattern, compact, multiline));
                                info.class_if(depth >= 8, "wrapped-depth>=8");
                                check_tree(&v, compact, multiline)
                            });
                            if let Err(f) = r {
                                ctx.record(case_json(&v, compact, multiline), &f);
                            }
                        }
                    }
                }
            }
            return;
        }
        let total = rand_cases(ctx.tier);
        let n = (total - (block * RAND_BLOCK).min(total)).min(RAND_BLOCK) as u32;
        crate::engine::run_proptest(
            ctx,
            (tree_strategy(), any::<bool>(), any::<bool>()),
            n,
            |(v, c, m)| case_json(v, *c, *m),
            |ctx, (v, c, m)| {
                ctx.eval(&|| case_json(v, *c, *m), |info| {
                    if nontrivial(v) {
                        info.nontrivial(&(format!("{v:?}"), *c, *m));
                    }
                    info.class_if(v.depth() >= 3, "depth>=3");
                    info.class_if(v.any(&|x| matches!(x, V::Float(_))), "float");
                    info.class_if(v.any(&|x| matches!(x, V::Map(m) if m.iter().any(|(k, _)| matches!(k, V::Seq(_) | V::Map(_))))), "collection-key");
                    info.class_if(v.any(&|x| matches!(x, V::Str(s) if s.contains('\n'))), "multi-line-string");
                    info.class_if(v.any(&|x| matches!(x, V::Str(s) if s.len() > 1000)), "string>1000");
                    check_tree(v, *c, *m)
                })
            },
        );
    }
    fn replay(&self, ctx: &mut Ctx, case: &Value) -> CheckResult {
        let v = V::from_json(&case["tree"]);
        let c = case["compact"].as_bool().unwrap_or(true);
        let m = case["multiline_strings"].as_bool().unwrap_or(false);
        ctx.eval(&|| case.clone(), |_| check_tree(&v, c, m))
    }
}
