//! C01 — parsing always terminates: no panic, abort or hang; linear work bound.

use super::Property;
use crate::drive::{event_bound, pull_all, push_all, Backend, Ev, Outcome, PErr, Sp};
use crate::engine::{case_text, text_case, CaseInfo, CheckResult, Ctx, StreamSpec, Tier};
use crate::gen;
use crate::{ensure, with_counting_parser};
use saphyr::{LoadableYamlNode, MarkedYaml, MarkedYamlOwned, Yaml, YamlOwned};
use saphyr_parser::{Input, Parser};
use serde_json::Value;
use std::cell::Cell;
use std::rc::Rc;

pub struct C01P;
pub static C01: C01P = C01P;

/// calls <= A * (chars + 1) + B  (DESIGN §5 C01 (c); measured maximum on the unchanged tree ~14)
pub const A: u64 = 64;
pub const B: u64 = 64;

pub fn call_limit(chars: usize) -> u64 {
    A * (chars as u64 + 1) + B
}

/// pull with interleaved peeks; stops at the first error from either call.
pub fn pull_peeky<T: Input>(p: &mut Parser<'_, T>, pattern: u64, max_events: usize) -> Outcome {
    let mut out = Outcome::default();
    let mut i = 0u32;
    loop {
        let k = (pattern >> ((2 * i) % 62)) & 3;
        i += 1;
        let mut peek_err = None;
        for _ in 0..k.min(2) {
            match p.peek() {
                Some(Err(e)) => {
                    peek_err = Some(PErr::from_err(&e));
                    break;
                }
                _ => {}
            }
        }
        if let Some(e) = peek_err {
            out.error = Some(e);
            break;
        }
        match p.next() {
            None => break,
            Some(Ok((ev, span))) => {
                let e = Ev::from_event(&ev);
                let end = e == Ev::StreamEnd;
                out.events.push((e, Sp::from_span(&span)));
                if end {
                    let a = p.peek().is_none();
                    let b = p.next().is_none();
                    out.none_after_end = Some(a && b);
                    break;
                }
                if out.events.len() > max_events {
                    out.event_bound_hit = true;
                    break;
                }
            }
            Some(Err(e)) => {
                out.error = Some(PErr::from_err(&e));
                break;
            }
        }
    }
    out
}

fn judge(info: &mut CaseInfo, what: &str, chars: usize, calls: &Rc<Cell<u64>>, o: &Outcome) -> CheckResult {
    let c = calls.get();
    info.max("input_calls_per_char_plus_1", c as f64 / (chars as f64 + 1.0));
    info.max("events_per_char_plus_1", o.events.len() as f64 / (chars as f64 + 1.0));
    ensure!(!o.event_bound_hit, "event-bound", "{what}: more than 8*(chars+1)+8 events delivered for {chars} chars");
    Ok(())
}

pub fn check_input(info: &mut CaseInfo, input: &str, loaders: bool) -> CheckResult {
    let chars = input.chars().count();
    let limit = call_limit(chars);
    let maxev = event_bound(chars);
    let mut first: Option<Outcome> = None;
    // pull iterator on every back-end
    for b in Backend::ALL6 {
        let calls = Rc::new(Cell::new(0u64));
        let o = with_counting_parser!(b, input, calls, limit, |p| pull_all(&mut p, maxev));
        judge(info, &format!("pull/{}", b.name()), chars, &calls, &o)?;
        if first.is_none() {
            first = Some(o);
        }
    }
    let pattern = crate::engine::hash64(input);
    for b in [Backend::Str, Backend::Buffered] {
        let calls = Rc::new(Cell::new(0u64));
        // peeks re-use the cached event: no extra input work
        let o = with_counting_parser!(b, input, calls, limit, |p| pull_peeky(&mut p, pattern, maxev));
        judge(info, &format!("peek-next/{}", b.name()), chars, &calls, &o)?;
    }
    // Parser::load and the loaders recurse per nesting level (C11's subject): shallow inputs only
    for b in if loaders { vec![Backend::Str, Backend::Test(8)] } else { vec![] } {
        let calls = Rc::new(Cell::new(0u64));
        let o = with_counting_parser!(b, input, calls, limit, |p| {
            let o = push_all(&mut p, maxev);
            if o.error.is_none() {
                // the parser is still a parser after a successful load: pulling from it may return
                // anything (the statement does not say what), but must not panic or spin
                let _ = p.peek().is_some();
                let _ = p.next().is_some();
                let _ = p.next().is_some();
            }
            o
        });
        judge(info, &format!("load/{}", b.name()), chars, &calls, &o)?;
    }
    if loaders {
        let _ = Yaml::load_from_str(input);
        let _ = YamlOwned::load_from_iter(input.chars());
        {
            let calls = Rc::new(Cell::new(0u64));
            let mut p = Parser::new(crate::drive::Counting::new(saphyr_parser::StrInput::new(input), calls.clone(), limit));
            let _ = MarkedYaml::load_from_parser(&mut p);
        }
        let _ = MarkedYamlOwned::load_from_str(input);
    }
    let o = first.unwrap();
    let nontrivial = o.events.len() >= 4 || o.error.as_ref().map(|e| e.mark.index > 0).unwrap_or(false);
    if nontrivial {
        info.nontrivial(input);
    }
    info.class_if(o.error.is_some(), "error");
    info.class_if(o.error.is_none(), "accepted");
    info.class_if(chars > 1000, "long>1000");
    Ok(())
}

/// Scaling families for the linear work bound: (name, prefix, unit, suffix, nests?)
pub const FAMILIES: &[(&str, &str, &str, &str, bool)] = &[
    ("plain-words", "", "a ", "", false),
    ("plain-lines", "", "a\n", "", false),
    ("blanks", "", " ", "", false),
    ("tabs", "a", "\t", "", false),
    ("breaks", "", "\n", "", false),
    ("seq-nest", "", "- ", "x", true),
    ("key-nest", "", "? ", "x", true),
    ("flow-seq-nest", "", "[", "", true),
    ("flow-map-nest", "", "{a: ", "", true),
    ("flow-items", "[", "a, ", "]", false),
    ("flow-pending-key", "[", "a ", ": b]", false),
    ("flow-pairs", "{", "a: b, ", "}", false),
    ("map-lines", "", "k: v\n", "", false),
    ("seq-lines", "", "- x\n", "", false),
    ("comments", "", "# c\n", "", false),
    ("comment-long", "#", "c", "\n", false),
    ("dq-folds", "\"", "a\n ", "\"", false),
    ("dq-escapes", "\"", "\\n\\x41", "\"", false),
    ("sq-quotes", "'", "''", "'", false),
    ("literal-lines", "|\n", " x\n", "", false),
    ("folded-lines", ">\n", " x\n\n", "", false),
    ("anchors", "", "- &a x\n", "", false),
    ("aliases", "- &a x\n", "- *a\n", "", false),
    ("tags", "", "- !t x\n", "", false),
    ("documents", "", "--- a\n", "", false),
    ("doc-ends", "a\n", "...\n", "", false),
    ("indent-deep", "k:\n", " ", "v", false),
    ("colons", "a", ":", "", false),
    ("dashes", "", "-", "", false),
    ("questions", "", "?", " a", false),
    ("long-key", "", "k", ": v", false),
    ("crlf-lines", "", "a: b\r\n", "", false),
    ("multibyte", "", "é中 ", "", false),
    ("directives", "", "%TAG !e! tag:e:\n", "--- a\n", false),
    ("block-in-seq", "", "- |\n  x\n", "", false),
    ("nested-maps-lines", "", "a:\n b:\n  c: d\n", "", false),
];

pub fn family_text(f: &(&str, &str, &str, &str, bool), n: usize) -> String {
    let mut s = String::with_capacity(f.1.len() + f.2.len() * n + f.3.len());
    s.push_str(f.1);
    for _ in 0..n {
        s.push_str(f.2);
    }
    s.push_str(f.3);
    s
}

/// nested per-level block mappings: input size is quadratic in depth
pub fn key_per_level(depth: usize) -> String {
    let mut s = String::new();
    for d in 0..depth {
        for _ in 0..d {
            s.push(' ');
        }
        s.push_str("k:\n");
    }
    s
}

fn scale_sizes(tier: Tier) -> Vec<usize> {
    tier.pick(vec![100, 1000, 10_000], vec![100, 1000, 10_000, 40_000])
}

impl Property for C01P {
    fn id(&self) -> &'static str {
        "C01"
    }
    fn rule(&self) -> String {
        "Inputs: every string up to the stated length over the YAML indicator alphabet (exhaustive), proptest token soups, \
         line-structured soups, mutated test-suite documents (incl. tab-for-blank, line-break style, special-character and line-splitting mutations), the corpus, and scaling families (a unit repeated 10^2..4*10^4 times). \
         Each input is parsed 14 times: pull iterator on StrInput / BufferedInput / TestInput<8,16,64,128>, peek+next mixes, \
         load(multi) on two back-ends, and the four load_from_* loaders; every back-end sits behind a call-counting Input wrapper. \
         Oracle: no panic (catch_unwind), no abort (worker exit status), input calls <= 64*(chars+1)+64, events <= 8*(chars+1)+8. \
         Non-trivial = the input produced >= 4 events or an error at index > 0; distinct by input text hash."
            .into()
    }
    fn assumptions(&self) -> Vec<String> {
        vec![
            "linear bound is a calibrated constant (64 calls per char; measured maximum reported under maxima), not derived".into(),
            "after the first error a consumer stops (the iterator is not fused); drivers do the same".into(),
            "deep block nesting through the loaders (stack overflow) is C11's subject: loader drivers here see nesting <= 1000".into(),
        ]
    }
    fn streams(&self, tier: Tier) -> Vec<StreamSpec> {
        let mut v = gen::plan(tier, 1.0).streams();
        v.push(StreamSpec::new(
            "scale",
            FAMILIES.len() as u64,
            true,
            &format!("{} scaling families x sizes {:?} x (pull, load) x (str, buffered)", FAMILIES.len(), scale_sizes(tier)),
        ));
        v
    }
    fn run_block(&self, ctx: &mut Ctx, stream: &str, block: u64) {
        if stream == "scale" {
            let fam = &FAMILIES[block as usize];
            for n in scale_sizes(ctx.tier) {
                let s = family_text(fam, n);
                let nests = fam.4;
                let json = || serde_json::json!({"family": fam.0, "n": n});
                let r = ctx.eval(&json, |info| {
                    info.class("scale");
                    // loaders recurse per nesting level (C11); keep them to shallow inputs here
                    check_input(info, &s, !nests || n <= 1000)
                });
                if let Err(f) = r {
                    ctx.record(serde_json::json!({"family": fam.0, "n": n}), &f);
                }
            }
            if block == 0 {
                for d in [10usize, 100, 300] {
                    let s = key_per_level(d);
                    let json = || serde_json::json!({"family": "key-per-level", "n": d});
                    if let Err(f) = ctx.eval(&json, |info| check_input(info, &s, true)) {
                        ctx.record(json(), &f);
                    }
                }
            }
            return;
        }
        gen::plan(ctx.tier, 1.0).run_block(ctx, stream, block, &|info, s| check_input(info, s, true));
    }
    fn replay(&self, ctx: &mut Ctx, case: &Value) -> CheckResult {
        if let Some(fam) = case.get("family").and_then(|f| f.as_str()) {
            let n = case["n"].as_u64().unwrap_or(100) as usize;
            let s = if fam == "key-per-level" {
                key_per_level(n)
            } else {
                let f = FAMILIES.iter().find(|f| f.0 == fam).expect("family");
                family_text(f, n)
            };
            return ctx.eval(&|| case.clone(), |info| check_input(info, &s, true));
        }
        let s = case_text(case);
        ctx.eval(&|| text_case(&s), |info| check_input(info, &s, true))
    }
    fn hang_is_violation(&self) -> bool {
        true
    }
}
