//! C04 — plain and quoted scalars yield exactly the text YAML assigns to them.
//!
//! A scalar is generated as a *presentation program* (atoms and separators); both the YAML text and
//! the denoted value are read off the same program (R7, flow-scalar half).

use super::Property;
use crate::drive::{parse_with, Backend, Ev};
use crate::engine::{CaseInfo, CheckResult, Ctx, StreamSpec, Tier};
use crate::{ensure, fail};
use proptest::prelude::*;
use saphyr_parser::ScalarStyle;
use serde_json::{json, Value};

pub struct C04P;
pub static C04: C04P = C04P;

#[derive(Clone, Copy, Debug, PartialEq, Eq, Hash)]
pub enum St {
    Plain,
    Single,
    Double,
}

#[derive(Clone, Debug, PartialEq)]
pub enum Atom {
    /// literal characters (no blanks, no breaks)
    Lit(String),
    /// double-quoted escape: the character and the form (0 named if it exists, 1 \x, 2 \u, 3 \U)
    Esc(char, u8),
    /// `''` in single quotes
    Quote2,
}

#[derive(Clone, Debug, PartialEq)]
pub enum Sep {
    /// nothing between two atoms
    None,
    /// interior blanks, kept verbatim
    Blank(String),
    /// a fold: `breaks` line breaks (>= 1); `pad` = blanks before the first break (dropped), `empty_pad` = blanks on
    /// the empty lines (dropped), `indent_extra` = extra continuation indentation, `lead` = blanks after
    /// the indentation (dropped)
    Fold { breaks: usize, pad: String, empty_pad: String, indent_extra: usize, lead: String },
    /// double-quoted: `\` + break: joins without a space; blanks before the backslash are kept;
    /// `empties` empty lines after the escaped break each yield a line feed
    EscBreak { keep: String, empties: usize, indent_extra: usize, lead: String },
}

#[derive(Clone, Debug)]
pub struct Program {
    pub style: St,
    /// blanks inside the quotes before the first / after the last atom (quoted styles only)
    pub lead: String,
    pub trail: String,
    pub atoms: Vec<Atom>,
    pub seps: Vec<Sep>,
}

pub const NAMED: &[(char, &str)] = &[
    ('\0', "0"), ('\u{7}', "a"), ('\u{8}', "b"), ('\t', "t"), ('\n', "n"), ('\u{b}', "v"), ('\u{c}', "f"), ('\r', "r"), ('\u{1b}', "e"), (' ', " "),
    ('"', "\""), ('/', "/"), ('\\', "\\"), ('\u{85}', "N"), ('\u{a0}', "_"), ('\u{2028}', "L"), ('\u{2029}', "P"),
];

fn esc_text(c: char, form: u8) -> String {
    let cp = c as u32;
    match form {
        0 => {
            if let Some((_, n)) = NAMED.iter().find(|(x, _)| *x == c) {
                return format!("\\{n}");
            }
            if cp <= 0xFF {
                format!("\\x{cp:02x}")
            } else if cp <= 0xFFFF {
                format!("\\u{cp:04X}")
            } else {
                format!("\\U{cp:08x}")
            }
        }
        1 if cp <= 0xFF => format!("\\x{cp:02X}"),
        1 | 2 if cp <= 0xFFFF => format!("\\u{cp:04x}"),
        _ => format!("\\U{cp:08X}"),
    }
}

impl Program {
    /// the value YAML assigns
    pub fn value(&self) -> String {
        let mut v = self.lead.clone();
        for (i, a) in self.atoms.iter().enumerate() {
            match a {
                Atom::Lit(s) => v.push_str(s),
                Atom::Esc(c, _) => v.push(*c),
                Atom::Quote2 => v.push('\''),
            }
            if i + 1 < self.atoms.len() {
                match &self.seps[i] {
                    Sep::None => {}
                    Sep::Blank(b) => v.push_str(b),
                    Sep::Fold { breaks, .. } => {
                        if *breaks == 1 {
                            v.push(' ');
                        } else {
                            for _ in 0..breaks - 1 {
                                v.push('\n');
                            }
                        }
                    }
                    Sep::EscBreak { keep, empties, .. } => {
                        v.push_str(keep);
                        for _ in 0..*empties {
                            v.push('\n');
                        }
                    }
                }
            }
        }
        v.push_str(&self.trail);
        v
    }

    pub fn multi_line(&self) -> bool {
        self.seps.iter().take(self.atoms.len().saturating_sub(1)).any(|s| matches!(s, Sep::Fold { .. } | Sep::EscBreak { .. }))
    }

    /// the YAML text; `cont` = minimum indentation of continuation lines
    pub fn text(&self, cont: usize) -> String {
        let q = match self.style {
            St::Plain => "",
            St::Single => "'",
            St::Double => "\"",
        };
        let mut t = String::from(q);
        t.push_str(&self.lead);
        for (i, a) in self.atoms.iter().enumerate() {
            match a {
                Atom::Lit(s) => t.push_str(s),
                Atom::Esc(c, f) => t.push_str(&esc_text(*c, *f)),
                Atom::Quote2 => t.push_str("''"),
            }
            if i + 1 < self.atoms.len() {
                match &self.seps[i] {
                    Sep::None => {}
                    Sep::Blank(b) => t.push_str(b),
                    Sep::Fold { breaks, pad, empty_pad, indent_extra, lead } => {
                        t.push_str(pad);
                        t.push('\n');
                        for _ in 0..breaks - 1 {
                            // l-empty: fewer than n spaces and nothing else, or the full line prefix
                            // (n spaces) followed by any blanks
                            if empty_pad.contains('\t') || empty_pad.len() > cont {
                                for _ in 0..cont {
                                    t.push(' ');
                                }
                            }
                            t.push_str(empty_pad);
                            t.push('\n');
                        }
                        for _ in 0..cont + indent_extra {
                            t.push(' ');
                        }
                        t.push_str(lead);
                    }
                    Sep::EscBreak { keep, empties, indent_extra, lead } => {
                        t.push_str(keep);
                        t.push_str("\\\n");
                        for _ in 0..*empties {
                            t.push('\n');
                        }
                        for _ in 0..cont + indent_extra {
                            t.push(' ');
                        }
                        t.push_str(lead);
                    }
                }
            }
        }
        t.push_str(&self.trail);
        t.push_str(q);
        t
    }
}

// ---- contexts ----------------------------------------------------------------------------------

pub const CONTEXTS: [&str; 11] =
    ["root", "root-after-marker", "block-value", "seq-entry", "block-key", "nested-seq-entry", "flow-seq-entry", "flow-map-value", "flow-key", "flow-root", "flow-map-key"];

fn ctx_flow(c: usize) -> bool {
    c >= 6
}
fn ctx_single_line(c: usize) -> bool {
    c == 4 || c == 8
}
fn ctx_cont(c: usize) -> usize {
    match c {
        0 | 1 | 9 => 0,
        5 => 5,
        _ => 1,
    }
}

/// wrap the scalar text into its context; returns the document and the expected events
fn wrap(c: usize, scalar: &str, style: ScalarStyle, value: &str) -> (String, Vec<Ev>) {
    let sc = |v: &str, s: ScalarStyle| Ev::Scalar { v: v.to_string(), style: s, aid: 0, tag: None };
    let p = |v: &str| sc(v, ScalarStyle::Plain);
    let me = sc(value, style);
    let (doc, body): (String, Vec<Ev>) = match c {
        0 => (format!("{scalar}\n"), vec![me]),
        1 => (format!("--- {scalar}\n"), vec![me]),
        2 => (format!("key: {scalar}\nnext: v\n"), vec![Ev::MapStart(0, None), p("key"), me, p("next"), p("v"), Ev::MapEnd]),
        3 => (format!("- {scalar}\n- next\n"), vec![Ev::SeqStart(0, None), me, p("next"), Ev::SeqEnd]),
        4 => (format!("{scalar}: value\nnext: v\n"), vec![Ev::MapStart(0, None), me, p("value"), p("next"), p("v"), Ev::MapEnd]),
        5 => (
            format!("a:\n  b:\n    - {scalar}\n    - x\n"),
            vec![Ev::MapStart(0, None), p("a"), Ev::MapStart(0, None), p("b"), Ev::SeqStart(0, None), me, p("x"), Ev::SeqEnd, Ev::MapEnd, Ev::MapEnd],
        ),
        6 => (format!("k: [x, {scalar}, y]\n"), vec![Ev::MapStart(0, None), p("k"), Ev::SeqStart(0, None), p("x"), me, p("y"), Ev::SeqEnd, Ev::MapEnd]),
        7 => (
            format!("k: {{a: {scalar}, b: c}}\n"),
            vec![Ev::MapStart(0, None), p("k"), Ev::MapStart(0, None), p("a"), me, p("b"), p("c"), Ev::MapEnd, Ev::MapEnd],
        ),
        8 => (format!("[{scalar}: v, w]\n"), vec![Ev::SeqStart(0, None), Ev::MapStart(0, None), me, p("v"), Ev::MapEnd, p("w"), Ev::SeqEnd]),
        9 => (format!("[{scalar}]\n"), vec![Ev::SeqStart(0, None), me, Ev::SeqEnd]),
        // an implicit key of a flow *mapping*: may span lines and has no length limit
        _ => (
            format!("k: {{{scalar}: v, b: c}}\n"),
            vec![Ev::MapStart(0, None), p("k"), Ev::MapStart(0, None), me, p("v"), p("b"), p("c"), Ev::MapEnd, Ev::MapEnd],
        ),
    };
    let mut evs = vec![Ev::StreamStart, Ev::DocStart(c == 1)];
    evs.extend(body);
    evs.extend([Ev::DocEnd, Ev::StreamEnd]);
    (doc, evs)
}

/// the same contexts with the scalar as the last thing of the input and no final line break
fn wrap_last(c: usize, scalar: &str, style: ScalarStyle, value: &str) -> Option<(String, Vec<Ev>)> {
    let sc = |v: &str, s: ScalarStyle| Ev::Scalar { v: v.to_string(), style: s, aid: 0, tag: None };
    let p = |v: &str| sc(v, ScalarStyle::Plain);
    let me = sc(value, style);
    let (doc, body): (String, Vec<Ev>) = match c {
        0 => (scalar.to_string(), vec![me]),
        1 => (format!("--- {scalar}"), vec![me]),
        2 => (format!("key: {scalar}"), vec![Ev::MapStart(0, None), p("key"), me, Ev::MapEnd]),
        3 => (format!("- x\n- {scalar}"), vec![Ev::SeqStart(0, None), p("x"), me, Ev::SeqEnd]),
        5 => (format!("a:\n  b:\n    - {scalar}"), vec![Ev::MapStart(0, None), p("a"), Ev::MapStart(0, None), p("b"), Ev::SeqStart(0, None), me, Ev::SeqEnd, Ev::MapEnd, Ev::MapEnd]),
        _ => return None,
    };
    let mut evs = vec![Ev::StreamStart, Ev::DocStart(c == 1)];
    evs.extend(body);
    evs.extend([Ev::DocEnd, Ev::StreamEnd]);
    Some((doc, evs))
}

// ---- sanitising (constraints of the productions, by construction) ------------------------------

fn is_flow_ind(c: char) -> bool {
    matches!(c, ',' | '[' | ']' | '{' | '}')
}

/// Make a raw program legal for its style and context. Returns None when nothing is left.
pub fn sanitise(mut p: Program, ctx: usize) -> Option<Program> {
    let flow = ctx_flow(ctx);
    let single_line = ctx_single_line(ctx);
    // no empty literals
    let mut atoms = vec![];
    let mut seps = vec![];
    for (i, a) in p.atoms.iter().enumerate() {
        let keep = match a {
            Atom::Lit(s) => !s.is_empty(),
            Atom::Esc(..) => p.style == St::Double,
            Atom::Quote2 => p.style == St::Single,
        };
        if keep {
            atoms.push(a.clone());
            seps.push(p.seps.get(i).cloned().unwrap_or(Sep::None));
        }
    }
    if atoms.is_empty() {
        if p.style == St::Plain {
            return None;
        }
        // the empty quoted scalar (with optional blanks)
        p.atoms = vec![];
        p.seps = vec![];
        p.trail.clear();
        return Some(p);
    }
    // style restrictions on separators
    for s in seps.iter_mut() {
        match s {
            Sep::EscBreak { .. } if p.style != St::Double => *s = Sep::Blank(" ".into()),
            Sep::Fold { .. } | Sep::EscBreak { .. } if single_line => *s = Sep::Blank(" ".into()),
            Sep::Blank(b) if b.is_empty() => *s = Sep::None,
            _ => {}
        }
        if let Sep::Fold { breaks, .. } = s {
            *breaks = (*breaks).clamp(1, 4);
        }
    }
    // literal alphabets
    for a in atoms.iter_mut() {
        if let Atom::Lit(s) = a {
            if single_line && s.chars().count() > 40 {
                // implicit keys of block mappings and of single pairs in flow sequences: <= 1024 characters
                *s = s.chars().take(40).collect();
            }
            let cleaned: String = s
                .chars()
                .filter(|c| !matches!(c, ' ' | '\t' | '\n' | '\r' | '\0'))
                .filter(|c| match p.style {
                    St::Double => !matches!(c, '"' | '\\'),
                    St::Single => *c != '\'',
                    St::Plain => *c != '\u{feff}' && !(flow && is_flow_ind(*c)),
                })
                .collect();
            *s = if cleaned.is_empty() { "x".to_string() } else { cleaned };
        }
    }
    if p.style == St::Plain {
        p.lead.clear();
        p.trail.clear();
        // merge adjacent literals (Sep::None) so the constraints see whole words
        let n = atoms.len();
        for i in 0..n {
            let Atom::Lit(s) = &mut atoms[i] else { unreachable!() };
            let at_line_start = i > 0 && matches!(seps[i - 1], Sep::Fold { .. });
            let after_blank = i > 0 && !matches!(seps[i - 1], Sep::None);
            let before_blank = i + 1 == n || !matches!(seps[i], Sep::None);
            let mut cs: Vec<char> = s.chars().collect();
            // ':' must be followed by a safe non-space character: never at the end of a word that is
            // followed by a blank / break / the end; in flow context never before a flow indicator
            // (those are filtered) — and a ':' directly before the end of the atom followed by
            // another atom is fine.
            if before_blank {
                while cs.last() == Some(&':') {
                    cs.pop();
                }
            }
            // '#' must not follow a blank
            if after_blank || i == 0 {
                while cs.first() == Some(&'#') {
                    cs.remove(0);
                }
            }
            // ns-plain-first at the very start. A continuation line starts with any ns-plain-char
            // (s-ns-plain-next-line): indicators, `- `, `? `, `---`, `...` are content there. At the
            // root (continuation at column 0) the conservative rule stays, because a line that
            // starts with `- `, `? `, `---`, `...` or `%` at column 0 is structure.
            let free_line_start = at_line_start && ctx_cont(ctx) > 0;
            // contexts in which the scalar's first character sits at column 0 (root, block key)
            let starts_at_col0 = ctx == 0 || ctx == 4;
            if free_line_start {
                // ':' needs a following safe character; a leading '#' was removed above
                loop {
                    if cs.first() == Some(&'#') || (cs.first() == Some(&':') && (cs.len() == 1 || matches!(cs[1], ':' | '#') || (flow && is_flow_ind(cs[1])))) {
                        cs.remove(0);
                    } else {
                        break;
                    }
                }
            } else if i == 0 || at_line_start {
                loop {
                    match cs.first() {
                        Some(c) if matches!(c, ',' | '[' | ']' | '{' | '}' | '#' | '&' | '*' | '!' | '|' | '>' | '\'' | '"' | '%' | '@' | '`') => {
                            cs.remove(0);
                        }
                        Some('-' | '?' | ':') => {
                            // allowed only when followed by a non-space "safe" character
                            let ok = cs.len() > 1 && !(flow && is_flow_ind(cs[1]));
                            // at column 0 of the root (`---x`, `--`, `-?`) keep it simple; anywhere
                            // else `---`, `--- x`, `-?x`, `::x` are ordinary plain scalars
                            let simple = cs.len() > 1 && cs[1] != '-' && cs[1] != '?' && cs[1] != ':';
                            let tail_ok = !matches!(cs.last(), Some('-' | '?' | ':')) || cs.iter().all(|c| *c == '-');
                            if ok && !at_line_start && (simple || (!starts_at_col0 && tail_ok && cs[1] != '#')) {
                                break;
                            }
                            cs.remove(0);
                        }
                        Some('.') if at_line_start || starts_at_col0 => {
                            cs.remove(0);
                        }
                        _ => break,
                    }
                }
            }
            if cs.is_empty() {
                cs.push('w');
            }
            // interior "x:" followed by flow indicator cannot occur (indicators filtered); ": " cannot
            // occur (no blanks inside atoms); " #" cannot occur (handled above)
            *s = cs.into_iter().collect();
        }
    } else {
        // blanks directly inside the quotes are content; next to a fold they would be dropped, so a
        // program keeps them only at the two ends (already the case by construction)
        if single_line {
            // nothing more
        }
    }
    // a document marker at column 0 on a continuation line
    p.atoms = atoms;
    p.seps = seps;
    Some(p)
}

// ---- generation --------------------------------------------------------------------------------

fn lit_strategy() -> impl Strategy<Value = String> {
    crate::oneof![
        4 => "[a-z0-9]{1,6}",
        3 => proptest::collection::vec(proptest::sample::select(vec![
            "a", "Z", "0", ":", "#", "-", "?", ",", "[", "]", "{", "}", "&", "*", "!", "|", ">", "'", "\"", "%", "@", "`", "\\", "é", "中", "😀", "\u{85}",
            "\u{2028}", "\u{feff}", "\u{a0}", "~", ".", "_", "/", "=", "a:b", "x#y", "--", "...", "---", "<<", "null", "1e3", "\u{fffd}",
        ]), 1..5).prop_map(|v| v.concat()),
        1 => "\\PC{1,4}",
        // words made of the characters that are document markers / indicators at column 0 only
        1 => proptest::sample::select(vec!["---", "...", "--", "....", "---x", "-?-", "::", "-:-", "?-", ".-."]).prop_map(|t| t.to_string()),
        // longer than the 1024-character limit of implicit keys (cut down again where that limit applies)
        1 => (1000usize..1100, proptest::sample::select(vec!["k", "é", "ab"])).prop_map(|(n, u)| u.repeat(n / u.len())),
    ]
}

fn blank_strategy() -> impl Strategy<Value = String> {
    crate::oneof![4 => Just(" ".to_string()), 2 => Just("  ".to_string()), 1 => Just("\t".to_string()), 1 => Just(" \t ".to_string())]
}

fn pad_strategy() -> impl Strategy<Value = String> {
    crate::oneof![5 => Just(String::new()), 2 => Just(" ".to_string()), 1 => Just("  \t".to_string()), 1 => Just("\t".to_string())]
}

fn sep_strategy() -> impl Strategy<Value = Sep> {
    crate::oneof![
        3 => Just(Sep::None),
        4 => blank_strategy().prop_map(Sep::Blank),
        4 => (1usize..4, pad_strategy(), pad_strategy(), 0usize..4, pad_strategy()).prop_map(|(breaks, pad, empty_pad, indent_extra, lead)| Sep::Fold { breaks, pad, empty_pad, indent_extra, lead }),
        2 => (pad_strategy(), crate::oneof![3 => Just(0usize), 1 => 1usize..3], 0usize..4, pad_strategy()).prop_map(|(keep, empties, indent_extra, lead)| Sep::EscBreak { keep, empties, indent_extra, lead }),
    ]
}

fn esc_char() -> impl Strategy<Value = char> {
    crate::oneof![
        4 => proptest::sample::select(NAMED.iter().map(|(c, _)| *c).collect::<Vec<_>>()),
        2 => proptest::sample::select(vec!['A', 'é', '中', '😀', '\u{1}', '\u{1f}', '\u{7f}', '\u{ff}', '\u{100}', '\u{ffff}', '\u{10000}', '\u{10ffff}', '\u{d7ff}', '\u{e000}', '\'', '#', ':']),
        1 => any::<char>(),
    ]
}

fn atom_strategy() -> impl Strategy<Value = Atom> {
    crate::oneof![6 => lit_strategy().prop_map(Atom::Lit), 3 => (esc_char(), 0u8..4).prop_map(|(c, f)| Atom::Esc(c, f)), 1 => Just(Atom::Quote2)]
}

pub fn program_strategy() -> impl Strategy<Value = (Program, usize)> {
    (
        proptest::sample::select(vec![St::Plain, St::Single, St::Double]),
        proptest::collection::vec((atom_strategy(), sep_strategy()), 0..7),
        pad_strategy(),
        pad_strategy(),
        0usize..CONTEXTS.len(),
    )
        .prop_map(|(style, items, lead, trail, ctx)| {
            let (atoms, seps): (Vec<Atom>, Vec<Sep>) = items.into_iter().unzip();
            (Program { style, lead, trail, atoms, seps }, ctx)
        })
}

// ---- the check ---------------------------------------------------------------------------------

pub fn check_program(info: &mut CaseInfo, raw: &Program, ctx: usize) -> CheckResult {
    let Some(p) = sanitise(raw.clone(), ctx) else {
        info.class("skipped: empty plain scalar");
        return Ok(());
    };
    check_sane(info, &p, ctx)
}

pub fn check_sane(info: &mut CaseInfo, p: &Program, ctx: usize) -> CheckResult {
    let cont = ctx_cont(ctx);
    let mut text = p.text(cont);
    // at the root a continuation line at column 0 must not look like a document marker / directive
    if cont == 0 && p.style == St::Plain && text.split('\n').skip(1).any(|l| l.starts_with("---") || l.starts_with("...") || l.starts_with('%')) {
        text = p.text(1);
    }
    if cont == 0 && p.style != St::Plain && text.split('\n').skip(1).any(|l| l.starts_with("---") || l.starts_with("...")) {
        text = p.text(1);
    }
    let value = p.value();
    let style = match p.style {
        St::Plain => ScalarStyle::Plain,
        St::Single => ScalarStyle::SingleQuoted,
        St::Double => ScalarStyle::DoubleQuoted,
    };
    let (doc, expected) = wrap(ctx, &text, style, &value);
    // the scalar as the very last thing of the input, with no line break after it
    if let Some((doc, expected)) = wrap_last(ctx, &text, style, &value) {
        for b in [Backend::Str, Backend::Buffered, Backend::Test(8)] {
            let o = parse_with(b, &doc);
            if let Some(e) = &o.error {
                fail!("rejects-wellformed", "{} (scalar ends the input) / {}: {}; document: {doc:?}", CONTEXTS[ctx], b.name(), e.display);
            }
            let got = o.evs();
            if got != expected {
                let n = got.len().min(expected.len());
                let at = (0..n).find(|i| got[*i] != expected[*i]).unwrap_or(n);
                let cat = if matches!((got.get(at), expected.get(at)), (Some(Ev::Scalar { style: a, .. }), Some(Ev::Scalar { style: b, .. })) if a == b) { "value-differs" } else { "events-differ" };
                fail!(cat, "{} (scalar ends the input) / {}: event #{at}: got {:?}, expected {:?}; document: {doc:?}", CONTEXTS[ctx], b.name(), got.get(at).map(|e| e.short()), expected.get(at).map(|e| e.short()));
            }
        }
        info.class("variant:scalar-ends-the-input");
    }
    // the same document with CR LF and with lone CR line breaks (a break is a break: the value is
    // the same); only when the program spans lines, and never for a document holding a literal CR
    let mut docs = vec![doc.clone()];
    if p.multi_line() && !doc.contains('\r') {
        docs.push(doc.replace('\n', "\r\n"));
        docs.push(doc.replace('\n', "\r"));
    }
    for (doc, b) in docs.iter().flat_map(|d| [Backend::Str, Backend::Buffered, Backend::Test(8)].into_iter().map(move |b| (d, b))) {
        let o = parse_with(b, doc);
        if let Some(e) = &o.error {
            fail!("rejects-wellformed", "{} / {}: {}; document: {doc:?}", CONTEXTS[ctx], b.name(), e.display);
        }
        let got = o.evs();
        if got != expected {
            let n = got.len().min(expected.len());
            let at = (0..n).find(|i| got[*i] != expected[*i]).unwrap_or(n);
            let cat = if matches!((got.get(at), expected.get(at)), (Some(Ev::Scalar { style: a, .. }), Some(Ev::Scalar { style: b, .. })) if a == b) { "value-differs" } else { "events-differ" };
            fail!(cat, "{} / {}: event #{at}: got {:?}, expected {:?}; document: {doc:?}", CONTEXTS[ctx], b.name(), got.get(at).map(|e| e.short()), expected.get(at).map(|e| e.short()));
        }
    }
    let has_esc = p.atoms.iter().any(|a| matches!(a, Atom::Esc(..) | Atom::Quote2));
    let has_fold = p.multi_line();
    let has_blank = p.seps.iter().any(|s| matches!(s, Sep::Blank(_)));
    let tricky = value.chars().any(|c| !c.is_ascii_alphanumeric() && c != ' ');
    if has_esc || has_fold || has_blank || tricky {
        info.nontrivial(&(format!("{:?}", p.style), text.as_str(), ctx));
    }
    info.class(match p.style {
        St::Plain => "plain",
        St::Single => "single-quoted",
        St::Double => "double-quoted",
    });
    info.class(CONTEXTS[ctx]);
    info.class_if(has_esc, "escape-or-quote2");
    info.class_if(has_fold, "multi-line");
    info.class_if(p.seps.iter().any(|s| matches!(s, Sep::Fold { breaks, .. } if *breaks > 1)), "fold-with-empty-lines");
    info.class_if(p.seps.iter().any(|s| matches!(s, Sep::EscBreak { .. })), "escaped-break");
    info.class_if(!value.is_ascii(), "non-ascii");
    Ok(())
}

pub fn program_json(p: &Program, ctx: usize) -> Value {
    let seps: Vec<Value> = p
        .seps
        .iter()
        .map(|s| match s {
            Sep::None => json!("none"),
            Sep::Blank(b) => json!({"blank": b}),
            Sep::Fold { breaks, pad, empty_pad, indent_extra, lead } => json!({"fold": breaks, "pad": pad, "empty_pad": empty_pad, "indent_extra": indent_extra, "lead": lead}),
            Sep::EscBreak { keep, empties, indent_extra, lead } => json!({"escbreak": keep, "empties": empties, "indent_extra": indent_extra, "lead": lead}),
        })
        .collect();
    let atoms: Vec<Value> = p
        .atoms
        .iter()
        .map(|a| match a {
            Atom::Lit(s) => json!({"lit": s}),
            Atom::Esc(c, f) => json!({"esc": *c as u32, "form": f}),
            Atom::Quote2 => json!("quote2"),
        })
        .collect();
    let style = match p.style {
        St::Plain => "plain",
        St::Single => "single",
        St::Double => "double",
    };
    let sane = sanitise(p.clone(), ctx);
    let doc = sane.as_ref().map(|q| wrap(ctx, &q.text(ctx_cont(ctx)), ScalarStyle::Plain, "").0).unwrap_or_default();
    json!({"style": style, "context": ctx, "lead": p.lead, "trail": p.trail, "atoms": atoms, "seps": seps, "document": doc, "value": sane.map(|q| q.value())})
}

fn program_from_json(v: &Value) -> (Program, usize) {
    let style = match v["style"].as_str() {
        Some("single") => St::Single,
        Some("double") => St::Double,
        _ => St::Plain,
    };
    let s = |x: &Value| x.as_str().unwrap_or("").to_string();
    let atoms = v["atoms"]
        .as_array()
        .map(|a| {
            a.iter()
                .map(|x| {
                    if x == "quote2" {
                        Atom::Quote2
                    } else if let Some(l) = x.get("lit") {
                        Atom::Lit(s(l))
                    } else {
                        Atom::Esc(char::from_u32(x["esc"].as_u64().unwrap_or(65) as u32).unwrap_or('A'), x["form"].as_u64().unwrap_or(0) as u8)
                    }
                })
                .collect()
        })
        .unwrap_or_default();
    let seps = v["seps"]
        .as_array()
        .map(|a| {
            a.iter()
                .map(|x| {
                    if let Some(b) = x.get("blank") {
                        Sep::Blank(s(b))
                    } else if let Some(n) = x.get("fold") {
                        Sep::Fold { breaks: n.as_u64().unwrap_or(1) as usize, pad: s(&x["pad"]), empty_pad: s(&x["empty_pad"]), indent_extra: x["indent_extra"].as_u64().unwrap_or(0) as usize, lead: s(&x["lead"]) }
                    } else if let Some(k) = x.get("escbreak") {
                        Sep::EscBreak { keep: s(k), empties: x["empties"].as_u64().unwrap_or(0) as usize, indent_extra: x["indent_extra"].as_u64().unwrap_or(0) as usize, lead: s(&x["lead"]) }
                    } else {
                        Sep::None
                    }
                })
                .collect()
        })
        .unwrap_or_default();
    (Program { style, lead: s(&v["lead"]), trail: s(&v["trail"]), atoms, seps }, v["context"].as_u64().unwrap_or(0) as usize % CONTEXTS.len())
}

const BLOCK: u64 = 8000;
fn cases(tier: Tier) -> u64 {
    tier.pick(800_000, 4_000_000)
}

impl Property for C04P {
    fn id(&self) -> &'static str {
        "C04"
    }
    fn rule(&self) -> String {
        "Presentation programs: a style (plain / single / double), up to 6 atoms (literal chunks over letters, digits, every YAML indicator, \
         quotes, backslash, e-acute, CJK, astral, U+0085, U+2028, U+FEFF, U+00A0, random printable; double-quoted escapes of named, \\x, \\u, \\U form \
         for named characters, boundary code points and random chars; '' in single quotes) separated by nothing, interior blanks (kept), \
         folds (1..3 breaks, blank / tab padding before the break, on the empty lines and after the continuation indentation, 0..3 extra \
         indentation) or escaped breaks (optionally followed by empty lines); blanks at both ends inside quotes; multi-line programs are also run with CR LF and lone CR line breaks, and block / root contexts also in a form where the scalar is the last thing of the input with no final break; continuation lines of plain scalars may start with any ns-plain-char, and away from column 0 a plain scalar may be a marker-like word (---, ..., -?-). A sanitiser enforces the style's productions by construction \
         (ns-plain-first / -safe, ': ' and ' #' exclusions, flow-indicator exclusion in flow context, single-line implicit keys). The \
         program is wrapped in 10 contexts (root, after '---', block value, sequence entry, block key, nested sequence entry, flow entry, \
         flow mapping value, flow key, flow root) and parsed on StrInput, BufferedInput and TestInput<8>; the full event list with the \
         program's value and style is asserted. An exhaustive stream covers every escape character in every form and every 1-2 atom \
         program over an 8-symbol alphabet with every separator kind. Non-trivial = an escape, fold, interior blank or a non-alphanumeric \
         character in the value; distinct by (style, text, context)."
            .into()
    }
    fn assumptions(&self) -> Vec<String> {
        vec!["the value function and the text function of a program (harness/src/props/c04.rs) follow YAML 1.2.2 sections 7.3 and 6.5".into()]
    }
    fn streams(&self, tier: Tier) -> Vec<StreamSpec> {
        vec![
            StreamSpec::new("programs", cases(tier).div_ceil(BLOCK), false, &format!("{} generated presentation programs", cases(tier))),
            StreamSpec::new("exhaustive", 10, true, "every named / boundary escape x 4 forms, and every 1-2 atom program over 8 symbols x 8 separator shapes, in all 10 contexts"),
        ]
    }
    fn run_block(&self, ctx: &mut Ctx, stream: &str, block: u64) {
        if stream == "exhaustive" {
            let c = block as usize;
            // escapes
            let mut chars: Vec<char> = NAMED.iter().map(|(c, _)| *c).collect();
            chars.extend(['A', 'é', '中', '😀', '\u{1}', '\u{7f}', '\u{ff}', '\u{ffff}', '\u{10000}', '\u{10ffff}']);
            for ch in chars {
                for form in 0..4u8 {
                    let p = Program { style: St::Double, lead: String::new(), trail: String::new(), atoms: vec![Atom::Lit("a".into()), Atom::Esc(ch, form), Atom::Lit("b".into())], seps: vec![Sep::None, Sep::None, Sep::None] };
                    let json = || program_json(&p, c);
                    if let Err(f) = ctx.eval(&json, |info| check_program(info, &p, c)) {
                        ctx.record(json(), &f);
                    }
                }
            }
            // small programs
            let symbols = ["a", ":", "#", "-", "'", "\"", "é", "x,y"];
            let seps = [
                Sep::None,
                Sep::Blank(" ".into()),
                Sep::Blank("\t".into()),
                Sep::Fold { breaks: 1, pad: String::new(), empty_pad: String::new(), indent_extra: 0, lead: String::new() },
                Sep::Fold { breaks: 2, pad: " ".into(), empty_pad: String::new(), indent_extra: 1, lead: String::new() },
                Sep::Fold { breaks: 3, pad: "\t".into(), empty_pad: " ".into(), indent_extra: 0, lead: "\t".into() },
                Sep::EscBreak { keep: " ".into(), empties: 0, indent_extra: 1, lead: " ".into() },
                Sep::EscBreak { keep: String::new(), empties: 2, indent_extra: 0, lead: String::new() },
            ];
            for style in [St::Plain, St::Single, St::Double] {
                for a in symbols {
                    for b in symbols {
                        for s in &seps {
                            let p = Program { style, lead: String::new(), trail: String::new(), atoms: vec![Atom::Lit(a.into()), Atom::Lit(b.into())], seps: vec![s.clone(), Sep::None] };
                            let json = || program_json(&p, c);
                            if let Err(f) = ctx.eval(&json, |info| check_program(info, &p, c)) {
                                ctx.record(json(), &f);
                            }
                        }
                    }
                }
            }
            return;
        }
        let total = cases(ctx.tier);
        let n = (total - (block * BLOCK).min(total)).min(BLOCK) as u32;
        crate::engine::run_proptest(ctx, program_strategy(), n, |(p, c)| program_json(p, *c), |ctx, (p, c)| ctx.eval(&|| program_json(p, *c), |info| check_program(info, p, *c)));
    }
    fn replay(&self, ctx: &mut Ctx, case: &Value) -> CheckResult {
        if let (Some(doc), Some(val)) = (case.get("witness_document").and_then(|x| x.as_str()), case.get("witness_events")) {
            // a committed witness: a concrete document and its expected scalar values in order
            let doc = doc.to_string();
            let vals: Vec<String> = val.as_array().map(|a| a.iter().filter_map(|x| x.as_str().map(|s| s.to_string())).collect()).unwrap_or_default();
            return ctx.eval(&|| case.clone(), |_| {
                let o = parse_with(Backend::Str, &doc);
                ensure!(o.error.is_none(), "rejects-wellformed", "{:?}; document {doc:?}", o.error);
                let got: Vec<String> = o.events.iter().filter_map(|(e, _)| if let Ev::Scalar { v, .. } = e { Some(v.clone()) } else { None }).collect();
                ensure!(got == vals, "value-differs", "scalars {got:?}, expected {vals:?}; document {doc:?}");
                Ok(())
            });
        }
        let (p, c) = program_from_json(case);
        ctx.eval(&|| case.clone(), |info| check_program(info, &p, c))
    }
}
