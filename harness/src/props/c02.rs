//! C02 — events always form a well-nested YAML event sentence.

use super::Property;
use crate::drive::{parse_with, push_with, Backend};
use crate::engine::{case_text, text_case, CaseInfo, CheckResult, Ctx, StreamSpec, Tier};
use crate::gen;
use crate::oracle::grammar::check_events;
use crate::{ensure, fail};
use serde_json::Value;

pub struct C02P;
pub static C02: C02P = C02P;

pub fn check_input(info: &mut CaseInfo, input: &str) -> CheckResult {
    let mut interesting = false;
    for b in [Backend::Str, Backend::Buffered] {
        // pull
        let o = parse_with(b, input);
        ensure!(!o.event_bound_hit, "event-bound", "pull/{}: event bound exceeded", b.name());
        let evs = o.evs();
        if let Err(m) = check_events(&evs, o.error.is_none()) {
            fail!("grammar-pull", "pull/{}: {m}; events: {}", b.name(), o.dump());
        }
        if o.error.is_none() {
            ensure!(
                o.none_after_end == Some(true),
                "after-stream-end",
                "pull/{}: next() after StreamEnd did not return None ({:?})",
                b.name(),
                o.none_after_end
            );
        }
        interesting |= evs.iter().any(|e| e.is_collection_or_alias());
        // push
        let o = push_with(b, input);
        ensure!(!o.event_bound_hit, "event-bound", "load/{}: event bound exceeded", b.name());
        if let Err(m) = check_events(&o.evs(), o.error.is_none()) {
            fail!("grammar-push", "load/{}: {m}; events: {}", b.name(), o.dump());
        }
        info.class_if(o.error.is_none(), "accepted");
        // push, one document per call: the calls together deliver the same kind of sentence
        let max = crate::drive::event_bound(input.chars().count());
        let (o, _calls) = crate::with_parser!(b, input, |p| crate::drive::push_per_doc(&mut p, max));
        if let Err(m) = check_events(&o.evs(), o.error.is_none()) {
            fail!("grammar-push-per-doc", "load(multi=false) repeated/{}: {m}; events: {}", b.name(), o.dump());
        }
    }
    // the pull interface with a peek before every next: the events handed out by next() must be the
    // same kind of sentence, with nothing after StreamEnd from either call
    {
        let max = crate::drive::event_bound(input.chars().count());
        let o = crate::with_parser!(Backend::Str, input, |p| crate::props::c01::pull_peeky(&mut p, 0x5555_5555_5555_5555, max));
        if let Err(m) = check_events(&o.evs(), o.error.is_none()) {
            fail!("grammar-pull-peek", "peek+next/str: {m}; events: {}", o.dump());
        }
        if o.error.is_none() {
            ensure!(o.none_after_end == Some(true), "after-stream-end", "peek+next/str: peek() or next() after StreamEnd returned something");
        }
    }
    if interesting {
        info.nontrivial(input);
    }
    Ok(())
}

impl Property for C02P {
    fn id(&self) -> &'static str {
        "C02"
    }
    fn rule(&self) -> String {
        "Same input spaces as C01 (exhaustive small scope over the YAML indicator alphabet, token soups, line soups, mutated corpus, \
         corpus). Each input is parsed by the pull iterator, by load(multi=true) and by repeated load(multi=false) on StrInput and BufferedInput, and by the pull iterator with a peek before every next; the delivered \
         events are fed to an independent pushdown recogniser of the event grammar in prefix mode (full sentence + None after \
         StreamEnd when no error), with the anchor/alias id rules. Non-trivial = at least one collection or alias event; distinct by input hash."
            .into()
    }
    fn assumptions(&self) -> Vec<String> {
        vec!["grammar only: which tree is denoted is C03's subject".into()]
    }
    fn streams(&self, tier: Tier) -> Vec<StreamSpec> {
        gen::plan(tier, 1.0).streams()
    }
    fn run_block(&self, ctx: &mut Ctx, stream: &str, block: u64) {
        gen::plan(ctx.tier, 1.0).run_block(ctx, stream, block, &|info, s| check_input(info, s));
    }
    fn replay(&self, ctx: &mut Ctx, case: &Value) -> CheckResult {
        let s = case_text(case);
        ctx.eval(&|| text_case(&s), |info| check_input(info, &s))
    }
}
