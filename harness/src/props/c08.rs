//! C08 — scalar typing follows the YAML 1.2 core schema and never corrupts text.

use super::Property;
use crate::engine::{CaseInfo, CheckResult, Ctx, StreamSpec, Tier};
use crate::gen::{exh_total, ExhIter};
use crate::oracle::core::{classify, near_literal, Core, IntForm};
use crate::{ensure, fail};
use proptest::prelude::*;
use saphyr::{LoadableYamlNode, Scalar, ScalarOwned, ScalarStyle, Tag, Yaml, YamlOwned};
use serde_json::{json, Value};
use std::borrow::Cow;

pub struct C08P;
pub static C08: C08P = C08P;

pub const LIT36: &[&str] = &[
    "0", "1", "7", "8", "9", "+", "-", ".", "e", "E", "x", "o", "X", "O", "a", "f", "A", "F", "_", "n", "u", "l", "N", "U", "L", "t", "r", "T",
    "R", "s", "S", "i", "I", "~", "b", "Y",
];

#[derive(Clone, Copy, PartialEq, Eq, Debug, Hash)]
pub enum TagK {
    None,
    Int,
    Float,
    Bool,
    Null,
    Str,
    Local,
    Other,
    /// yaml.org namespace, but none of the five core-schema tags
    CoreBin,
    /// yaml.org namespace, a core tag name in the wrong case
    CoreCaps,
}

pub const TAGS: [TagK; 10] = [TagK::None, TagK::Int, TagK::Float, TagK::Bool, TagK::Null, TagK::Str, TagK::Local, TagK::Other, TagK::CoreBin, TagK::CoreCaps];

impl TagK {
    pub fn tag(self) -> Option<Tag> {
        let core = |s: &str| Some(Tag { handle: "tag:yaml.org,2002:".into(), suffix: s.into() });
        match self {
            TagK::None => None,
            TagK::Int => core("int"),
            TagK::Float => core("float"),
            TagK::Bool => core("bool"),
            TagK::Null => core("null"),
            TagK::Str => core("str"),
            TagK::Local => Some(Tag { handle: "!".into(), suffix: "foo".into() }),
            TagK::Other => Some(Tag { handle: "tag:other:".into(), suffix: "x".into() }),
            TagK::CoreBin => core("binary"),
            TagK::CoreCaps => core("Int"),
        }
    }
    /// how the tag is written in a document
    pub fn text(self) -> &'static str {
        match self {
            TagK::None => "",
            TagK::Int => "!!int ",
            TagK::Float => "!!float ",
            TagK::Bool => "!!bool ",
            TagK::Null => "!!null ",
            TagK::Str => "!!str ",
            TagK::Local => "!foo ",
            TagK::Other => "!<tag:other:x> ",
            TagK::CoreBin => "!!binary ",
            TagK::CoreCaps => "!!Int ",
        }
    }
    pub fn name(self) -> &'static str {
        match self {
            TagK::None => "none",
            TagK::Int => "int",
            TagK::Float => "float",
            TagK::Bool => "bool",
            TagK::Null => "null",
            TagK::Str => "str",
            TagK::Local => "local",
            TagK::Other => "other",
            TagK::CoreBin => "corebin",
            TagK::CoreCaps => "corecaps",
        }
    }
    pub fn parse(s: &str) -> TagK {
        *TAGS.iter().find(|t| t.name() == s).unwrap_or(&TagK::None)
    }
}

pub const STYLES: [ScalarStyle; 5] =
    [ScalarStyle::Plain, ScalarStyle::SingleQuoted, ScalarStyle::DoubleQuoted, ScalarStyle::Literal, ScalarStyle::Folded];

pub fn style_name(s: ScalarStyle) -> &'static str {
    match s {
        ScalarStyle::Plain => "plain",
        ScalarStyle::SingleQuoted => "single",
        ScalarStyle::DoubleQuoted => "double",
        ScalarStyle::Literal => "literal",
        ScalarStyle::Folded => "folded",
    }
}

pub fn style_parse(s: &str) -> ScalarStyle {
    *STYLES.iter().find(|x| style_name(**x) == s).unwrap_or(&ScalarStyle::Plain)
}

/// Result in a neutral form: None = BadValue
#[derive(Clone, Debug, PartialEq)]
pub enum Got {
    Bad,
    Null,
    Bool(bool),
    Int(i64),
    Float(f64),
    Str(String),
    /// anything else (a collection, an alias ...) — only possible through the document path
    Weird(String),
}

pub fn got_of_scalar(s: Option<&Scalar<'_>>) -> Got {
    match s {
        None => Got::Bad,
        Some(Scalar::Null) => Got::Null,
        Some(Scalar::Boolean(b)) => Got::Bool(*b),
        Some(Scalar::Integer(i)) => Got::Int(*i),
        Some(Scalar::FloatingPoint(f)) => Got::Float(f.into_inner()),
        Some(Scalar::String(s)) => Got::Str(s.to_string()),
    }
}

pub fn got_of_yaml(y: &Yaml<'_>) -> Got {
    match y {
        Yaml::BadValue => Got::Bad,
        Yaml::Value(s) => got_of_scalar(Some(s)),
        other => Got::Weird(format!("{other:?}")),
    }
}

fn same_float(a: f64, b: f64) -> bool {
    (a.is_nan() && b.is_nan()) || a.to_bits() == b.to_bits()
}

/// Equality of outcomes with floats compared by bit pattern (NaNs alike): `-0.0` is not `0.0`, which
/// both `f64 ==` and `OrderedFloat` would let pass.
fn same_got(a: &Got, b: &Got) -> bool {
    match (a, b) {
        (Got::Float(x), Got::Float(y)) => same_float(*x, *y),
        _ => a == b,
    }
}

fn float_of_untagged(text: &str, c: &Core) -> Option<f64> {
    match c {
        Core::Float => text.parse::<f64>().ok(),
        Core::Inf { negative } => Some(if *negative { f64::NEG_INFINITY } else { f64::INFINITY }),
        Core::Nan => Some(f64::NAN),
        // an integer may widen to a float
        Core::Int { value, form } => match form {
            IntForm::Dec => text.parse::<f64>().ok(),
            _ => value.map(|v| v as f64),
        },
        _ => None,
    }
}

/// The oracle: is `got` an allowed outcome for (text, style, tag)?
pub fn judge(text: &str, style: ScalarStyle, tag: TagK, got: &Got) -> CheckResult {
    let who = || format!("text {text:?} style {} tag {}", style_name(style), tag.name());
    if style != ScalarStyle::Plain {
        ensure!(*got == Got::Str(text.to_string()), "nonplain-not-string", "{}: a quoted / block scalar must load as the identical string, got {got:?}", who());
        return Ok(());
    }
    let c = classify(text);
    let i64v = |v: &Option<i128>| v.and_then(|v| i64::try_from(v).ok());
    match tag {
        TagK::Str | TagK::Local | TagK::Other | TagK::CoreBin | TagK::CoreCaps => {
            ensure!(*got == Got::Str(text.to_string()), "tagged-str", "{}: must stay the identical string, got {got:?}", who());
        }
        TagK::None => match &c {
            Core::Null { must } => {
                let ok = *got == Got::Null || (!*must && *got == Got::Str(text.to_string()));
                ensure!(ok, "untagged-null", "{}: expected Null{}, got {got:?}", who(), if *must { "" } else { " or the string" });
            }
            Core::Bool { value, must } => {
                let ok = *got == Got::Bool(*value) || (!*must && *got == Got::Str(text.to_string()));
                ensure!(ok, "untagged-bool", "{}: expected Boolean({value}){}, got {got:?}", who(), if *must { "" } else { " or the string" });
            }
            Core::Int { value, form } => {
                if let Some(v) = i64v(value) {
                    ensure!(*got == Got::Int(v), "untagged-int", "{}: a core-schema integer within 64 bits must load as Integer({v}), got {got:?}", who());
                } else {
                    // outside i64: decimal may become the nearest float or stay a string; 0x / 0o only a string
                    let ok = match got {
                        Got::Str(s) => s == text,
                        Got::Float(f) if *form == IntForm::Dec => text.parse::<f64>().map(|e| same_float(e, *f)).unwrap_or(false),
                        _ => false,
                    };
                    ensure!(ok, "untagged-bigint", "{}: an integer outside 64 bits may be a string (decimal: or the nearest float), got {got:?}", who());
                }
            }
            Core::Float | Core::Inf { .. } | Core::Nan => {
                let e = float_of_untagged(text, &c).unwrap();
                let ok = matches!(got, Got::Float(f) if same_float(*f, e));
                ensure!(ok, "untagged-float", "{}: expected FloatingPoint({e:?}), got {got:?}", who());
            }
            Core::Str => {
                ensure!(*got == Got::Str(text.to_string()), "untagged-not-literal", "{}: not a core-schema literal, must stay the identical string, got {got:?}", who());
            }
        },
        TagK::Int => {
            let must = matches!(&c, Core::Int { value, form: IntForm::Dec } if i64v(value).is_some());
            match got {
                Got::Bad => ensure!(!must, "tag-int-rejects-decimal", "{}: a decimal integer must be accepted under !!int", who()),
                Got::Int(g) => {
                    let ok = matches!(&c, Core::Int { value, .. } if i64v(value) == Some(*g));
                    ensure!(ok, "tag-int-value", "{}: Integer({g}) does not agree with the untagged reading {c:?}", who());
                }
                _ => fail!("tag-int-type", "{}: under !!int only Integer or BadValue are allowed, got {got:?}", who()),
            }
        }
        TagK::Float => {
            let must = c == Core::Float;
            match got {
                Got::Bad => ensure!(!must, "tag-float-rejects-decimal", "{}: a decimal float must be accepted under !!float", who()),
                Got::Float(g) => {
                    let ok = float_of_untagged(text, &c).map(|e| same_float(e, *g)).unwrap_or(false);
                    ensure!(ok, "tag-float-value", "{}: FloatingPoint({g:?}) does not agree with the untagged reading {c:?}", who());
                }
                _ => fail!("tag-float-type", "{}: under !!float only FloatingPoint or BadValue are allowed, got {got:?}", who()),
            }
        }
        TagK::Bool => match got {
            Got::Bad => ensure!(!matches!(text, "true" | "false"), "tag-bool-rejects", "{}: true/false must be accepted under !!bool", who()),
            Got::Bool(g) => {
                ensure!(matches!(&c, Core::Bool { value, .. } if value == g), "tag-bool-value", "{}: Boolean({g}) does not agree with the untagged reading {c:?}", who())
            }
            _ => fail!("tag-bool-type", "{}: under !!bool only Boolean or BadValue are allowed, got {got:?}", who()),
        },
        TagK::Null => match got {
            Got::Bad => ensure!(!matches!(text, "null" | "~"), "tag-null-rejects", "{}: null/~ must be accepted under !!null", who()),
            Got::Null => ensure!(matches!(&c, Core::Null { .. }), "tag-null-value", "{}: Null does not agree with the untagged reading {c:?}", who()),
            _ => fail!("tag-null-type", "{}: under !!null only Null or BadValue are allowed, got {got:?}", who()),
        },
    }
    Ok(())
}

/// Direct API: borrowed and owned resolvers.
pub fn check_api(text: &str, style: ScalarStyle, tag: TagK) -> CheckResult {
    let t = tag.tag();
    let b = Scalar::parse_from_cow_and_metadata(Cow::Borrowed(text), style, t.as_ref());
    let got = got_of_scalar(b.as_ref());
    judge(text, style, tag, &got)?;
    let o = ScalarOwned::parse_from_cow_and_metadata(Cow::Owned(text.to_string()), style, t.as_ref());
    let got_o = got_of_scalar(o.as_ref().map(|s| s.as_scalar()).as_ref());
    ensure!(
        same_got(&got_o, &got),
        "borrowed-vs-owned",
        "text {text:?} style {} tag {}: Scalar gives {got:?}, ScalarOwned gives {got_o:?}",
        style_name(style),
        tag.name()
    );
    if tag == TagK::None && style == ScalarStyle::Plain {
        let p = got_of_scalar(Some(&Scalar::parse_from_cow(Cow::Borrowed(text))));
        ensure!(same_got(&p, &got), "parse_from_cow-differs", "text {text:?}: parse_from_cow gives {p:?}, parse_from_cow_and_metadata gives {got:?}");
        let po = got_of_scalar(Some(&ScalarOwned::parse_from_cow(Cow::Borrowed(text)).as_scalar()));
        ensure!(same_got(&po, &got), "borrowed-vs-owned", "text {text:?}: ScalarOwned::parse_from_cow gives {po:?}, Scalar gives {got:?}");
        // round trip borrowed -> owned -> borrowed
        if let Some(s) = &b {
            let back = s.clone().into_owned();
            ensure!(same_got(&got_of_scalar(Some(&back.as_scalar())), &got_of_scalar(Some(s))), "into_owned-roundtrip", "text {text:?}: into_owned/as_scalar changed {s:?}");
        }
    }
    Ok(())
}

/// Can `text` be written as a one-line plain scalar value after `k: ` (block context)?
pub fn plain_expressible(text: &str) -> bool {
    let cs: Vec<char> = text.chars().collect();
    if cs.is_empty() {
        return false;
    }
    if cs.iter().any(|c| matches!(c, '\n' | '\r' | '\t' | '\u{feff}')) || cs[0] == ' ' || *cs.last().unwrap() == ' ' {
        return false;
    }
    // ns-plain-first
    let first_ok = match cs[0] {
        '-' | '?' | ':' => cs.len() > 1 && cs[1] != ' ',
        ',' | '[' | ']' | '{' | '}' | '#' | '&' | '*' | '!' | '|' | '>' | '\'' | '"' | '%' | '@' | '`' => false,
        _ => true,
    };
    if !first_ok {
        return false;
    }
    for i in 0..cs.len() {
        if cs[i] == ':' && (i + 1 == cs.len() || cs[i + 1] == ' ') {
            return false;
        }
        if cs[i] == '#' && i > 0 && cs[i - 1] == ' ' {
            return false;
        }
    }
    true
}

/// Document path: render a one-pair mapping `k: <tag> <scalar>` and load it.
pub fn render_doc(text: &str, style: ScalarStyle, tag: TagK) -> Option<String> {
    let t = tag.text();
    // the simple one-line renderings below cannot express breaks, control characters or a BOM
    if text.chars().any(|c| (c < ' ' && c != '\t') || c == '\u{7f}' || c == '\u{feff}' || (style == ScalarStyle::Plain && c == '\t')) {
        return None;
    }
    Some(match style {
        ScalarStyle::Plain => {
            if text.is_empty() {
                // a node with no content at all: `k: !!str` / `k:` (the parser reports an empty plain scalar)
                return Some(format!("k: {t}\n"));
            }
            if !plain_expressible(text) {
                return None;
            }
            format!("k: {t}{text}\n")
        }
        ScalarStyle::SingleQuoted => format!("k: {t}'{}'\n", text.replace('\'', "''")),
        ScalarStyle::DoubleQuoted => format!("k: {t}\"{}\"\n", text.replace('\\', "\\\\").replace('"', "\\\"")),
        ScalarStyle::Literal | ScalarStyle::Folded => {
            if text.is_empty() || text.starts_with(' ') || text.contains('\n') {
                return None;
            }
            format!("k: {t}{}-\n  {text}\n", if style == ScalarStyle::Literal { '|' } else { '>' })
        }
    })
}

pub fn check_doc(text: &str, style: ScalarStyle, tag: TagK) -> CheckResult {
    let Some(doc) = render_doc(text, style, tag) else { return Ok(()) };
    let docs = match Yaml::load_from_str(&doc) {
        Ok(d) => d,
        Err(e) => fail!("doc-load-error", "document {doc:?} failed to load: {e}"),
    };
    ensure!(docs.len() == 1, "doc-shape", "document {doc:?} loaded as {} documents", docs.len());
    let Some(m) = docs[0].as_mapping() else { fail!("doc-shape", "document {doc:?} is not a mapping: {:?}", docs[0]) };
    ensure!(m.len() == 1, "doc-shape", "document {doc:?} has {} pairs", m.len());
    let (k, v) = m.iter().next().unwrap();
    ensure!(k.as_str() == Some("k"), "doc-shape", "document {doc:?}: key is {k:?}");
    let got = got_of_yaml(v);
    judge(text, style, tag, &got).map_err(|mut f| {
        f.detail = format!("through load_from_str({doc:?}): {}", f.detail);
        f
    })?;
    // the owned loader must agree
    let od = YamlOwned::load_from_str(&doc).map_err(|e| crate::engine::Fail::new("doc-load-error", format!("YamlOwned: {e}")))?;
    let ov = od[0].as_mapping().and_then(|m| m.iter().next()).map(|(_, v)| v.clone());
    let og = match &ov {
        Some(YamlOwned::BadValue) => Got::Bad,
        Some(YamlOwned::Value(s)) => got_of_scalar(Some(&s.as_scalar())),
        other => Got::Weird(format!("{other:?}")),
    };
    ensure!(
        same_got(&og, &got),
        "borrowed-vs-owned",
        "document {doc:?}: Yaml gives {got:?}, YamlOwned gives {og:?}"
    );
    Ok(())
}

pub fn case_json(text: &str, style: ScalarStyle, tag: TagK, path: &str) -> Value {
    json!({"text": text, "style": style_name(style), "tag": tag.name(), "path": path})
}

/// All checks for one text (API path: all tags x plain, no-tag x other styles).
fn check_text_api(ctx: &mut Ctx, text: &str) {
    for tag in TAGS {
        let r = ctx.eval(&|| case_json(text, ScalarStyle::Plain, tag, "api"), |info: &mut CaseInfo| {
            if near_literal(text) {
                info.nontrivial(&(text, "plain", tag.name()));
            }
            info.class_if(classify(text) != Core::Str, "literal");
            check_api(text, ScalarStyle::Plain, tag)
        });
        if let Err(f) = r {
            ctx.record(case_json(text, ScalarStyle::Plain, tag, "api"), &f);
        }
    }
    for style in &STYLES[1..] {
        for tag in [TagK::None, TagK::Int] {
            let r = ctx.eval(&|| case_json(text, *style, tag, "api"), |info: &mut CaseInfo| {
                if near_literal(text) {
                    info.nontrivial(&(text, style_name(*style), tag.name()));
                }
                check_api(text, *style, tag)
            });
            if let Err(f) = r {
                ctx.record(case_json(text, *style, tag, "api"), &f);
            }
        }
    }
}

fn check_text_doc(ctx: &mut Ctx, text: &str) {
    for tag in TAGS {
        let r = ctx.eval(&|| case_json(text, ScalarStyle::Plain, tag, "doc"), |info: &mut CaseInfo| {
            if near_literal(text) && plain_expressible(text) {
                info.nontrivial(&(text, "plain", tag.name(), "doc"));
            }
            check_doc(text, ScalarStyle::Plain, tag)
        });
        if let Err(f) = r {
            ctx.record(case_json(text, ScalarStyle::Plain, tag, "doc"), &f);
        }
    }
    for style in &STYLES[1..] {
        let r = ctx.eval(&|| case_json(text, *style, TagK::None, "doc"), |info: &mut CaseInfo| {
            if near_literal(text) {
                info.nontrivial(&(text, style_name(*style), "none", "doc"));
            }
            check_doc(text, *style, TagK::None)
        });
        if let Err(f) = r {
            ctx.record(case_json(text, *style, TagK::None, "doc"), &f);
        }
    }
}

// ---- random texts ------------------------------------------------------------------------------

fn number_template() -> impl Strategy<Value = String> {
    let sign = crate::oneof![Just(""), Just("-"), Just("+")];
    let digits = crate::oneof![
        "[0-9]{1,4}",
        "[0-9]{17,21}",
        Just("9223372036854775807".to_string()),
        Just("9223372036854775808".to_string()),
        Just("18446744073709551615".to_string()),
        Just("18446744073709551616".to_string()),
        Just("0".to_string()),
        Just("00".to_string()),
        Just("007".to_string()),
        // zero-padded literals of any length still denote small integers
        ("0{1,30}", "[0-9]{1,19}").prop_map(|(z, d)| format!("{z}{d}")),
        ("0{15,40}", "[1-9]?").prop_map(|(z, d)| format!("{z}{d}"))
    ];
    let frac = crate::oneof![Just("".to_string()), Just(".".to_string()), "\\.[0-9]{1,18}"];
    let exp = crate::oneof![Just("".to_string()), "[eE][-+]?[0-9]{1,3}", Just("e".to_string()), Just("e+".to_string())];
    let junk = crate::oneof![8 => Just(""), 1 => Just("_"), 1 => Just("x"), 1 => Just(" "), 1 => Just("-"), 1 => Just("+")];
    (sign, digits, frac, exp, junk, 0usize..4).prop_map(|(s, d, f, e, j, pos)| {
        let mut parts = vec![s.to_string(), d, f, e];
        parts.insert(pos.min(4), j.to_string());
        parts.concat()
    })
}

fn radix_template() -> impl Strategy<Value = String> {
    let pre = crate::oneof![Just("0x"), Just("0o"), Just("0X"), Just("0O"), Just("-0x"), Just("+0o"), Just("0b")];
    let body = crate::oneof![
        "[0-9a-fA-F]{1,6}",
        "[0-7]{1,8}",
        Just("7fffffffffffffff".to_string()),
        Just("8000000000000000".to_string()),
        Just("FFFFFFFFFFFFFFFF".to_string()),
        Just("10000000000000000".to_string()),
        Just("777777777777777777777".to_string()),
        Just("1000000000000000000000".to_string()),
        Just("1777777777777777777777".to_string()),
        Just("+1".to_string()),
        Just("-1".to_string()),
        Just("_1".to_string()),
        Just("".to_string())
    ];
    (pre, body).prop_map(|(p, b)| format!("{p}{b}"))
}

fn word_template() -> impl Strategy<Value = String> {
    crate::oneof![
        proptest::sample::select(vec![
            "null", "Null", "NULL", "nULL", "~", "~~", "true", "True", "TRUE", "tRUE", "false", "False", "FALSE", "yes", "Yes", "no", "No", "on", "off",
            "y", "n", ".inf", ".Inf", ".INF", "-.inf", "+.inf", ".iNF", "inf", "Inf", "INF", "-inf", "+inf", "infinity", "Infinity", "-Infinity", ".nan",
            ".NaN", ".NAN", "nan", "NaN", "NAN", "-.nan", "+.nan", ".Nan", "-nan", "1e400", "-1e400", "4.9e-324", "1e-400", "0.1", "-0.0", "+0.0", "-0",
            "1_000", "1,000", "0.", ".0", ".", "..", "-", "+", "--1", "++1", "+-1", "-+1", "1-", "1+", "e1", "E1", "1e1", "1E1", ".e1", "1.e1", "0x", "0o",
            "0o8", "0xg", "12:30:00", "2001-12-14", "0b101", "0017", "-0017", "1__2",
        ])
        .prop_map(|s| s.to_string()),
        proptest::collection::vec(proptest::sample::select(LIT36), 5..12).prop_map(|v| v.concat()),
        "[ -~]{0,12}",
        "\\PC{0,8}",
    ]
}

pub fn random_text() -> impl Strategy<Value = String> {
    crate::oneof![3 => number_template(), 2 => radix_template(), 3 => word_template()]
}

fn exh_len(tier: Tier) -> u32 {
    tier.pick(4, 5)
}
fn doc_len(tier: Tier) -> u32 {
    tier.pick(3, 4)
}
const EXH_BLOCK: u64 = 60_000;
const DOC_BLOCK: u64 = 8_000;
fn random_cases(tier: Tier) -> u64 {
    tier.pick(400_000, 1_500_000)
}
const RAND_BLOCK: u64 = 12_500;

impl Property for C08P {
    fn id(&self) -> &'static str {
        "C08"
    }
    fn rule(&self) -> String {
        "Texts: every string up to the stated length over the 36-symbol alphabet of core-schema literal characters (exhaustive), plus \
         proptest number / radix / word templates (i64 and u64 boundaries, long digit strings, exponent edge cases, YAML 1.1 words, \
         random printable and Unicode text). Each text is resolved through Scalar::parse_from_cow(_and_metadata) and the ScalarOwned \
         twins (plain x {no tag, !!int, !!float, !!bool, !!null, !!str, !foo, tag:other:x}; 4 non-plain styles x {no tag, !!int}) and, \
         in the 'doc' streams, through Yaml/YamlOwned::load_from_str of a rendered 'k: <tag> <scalar>' document in all 5 styles. \
         Oracle: a hand-written matcher of the YAML 1.2.2 10.3.2 regular expressions with must / may outcomes. \
         Non-trivial = the text, or the text with one character deleted, is a core-schema literal; distinct by (text, style, tag, path)."
            .into()
    }
    fn assumptions(&self) -> Vec<String> {
        vec![
            "'within 64 bits' = fits i64, the type Scalar::Integer holds (I2)".into(),
            "f64::from_str (std) gives the denoted value of a float literal once the matcher accepted its text".into(),
            "Null/NULL/True/TRUE/False/FALSE and the empty text may be typed or left as strings".into(),
        ]
    }
    fn streams(&self, tier: Tier) -> Vec<StreamSpec> {
        let n = exh_total(36, exh_len(tier));
        let d = exh_total(36, doc_len(tier));
        vec![
            StreamSpec::new("exh-api", n.div_ceil(EXH_BLOCK), true, &format!("every string of length <= {} over the 36 literal characters ({n} texts) x 16 (style, tag) pairs through the resolver API", exh_len(tier))),
            StreamSpec::new("exh-doc", d.div_ceil(DOC_BLOCK), true, &format!("every string of length <= {} ({d} texts) x 12 (style, tag) pairs through load_from_str of a rendered document", doc_len(tier))),
            StreamSpec::new("random", random_cases(tier).div_ceil(RAND_BLOCK), false, &format!("{} proptest texts (number, radix, word templates) through both paths", random_cases(tier))),
        ]
    }
    fn run_block(&self, ctx: &mut Ctx, stream: &str, block: u64) {
        match stream {
            "exh-api" => {
                let lo = block * EXH_BLOCK;
                for t in ExhIter::new(LIT36, exh_len(ctx.tier), lo, lo + EXH_BLOCK) {
                    check_text_api(ctx, &t);
                }
            }
            "exh-doc" => {
                let lo = block * DOC_BLOCK;
                for t in ExhIter::new(LIT36, doc_len(ctx.tier), lo, lo + DOC_BLOCK) {
                    check_text_doc(ctx, &t);
                }
            }
            _ => {
                let total = random_cases(ctx.tier);
                let n = (total - (block * RAND_BLOCK).min(total)).min(RAND_BLOCK) as u32;
                crate::engine::run_proptest(
                    ctx,
                    (random_text(), 0usize..8, 0usize..5, any::<bool>()),
                    n,
                    |(t, tag, style, doc)| case_json(t, STYLES[*style], TAGS[*tag], if *doc { "doc" } else { "api" }),
                    |ctx, (t, tag, style, doc)| {
                        let (tag, style) = (TAGS[*tag], STYLES[*style]);
                        ctx.eval(&|| case_json(t, style, tag, if *doc { "doc" } else { "api" }), |info| {
                            if near_literal(t) {
                                info.nontrivial(&(t.as_str(), style_name(style), tag.name(), *doc));
                            }
                            info.class_if(classify(t) != Core::Str, "literal");
                            if *doc {
                                check_doc(t, style, tag)
                            } else {
                                check_api(t, style, tag)
                            }
                        })
                    },
                );
            }
        }
    }
    fn replay(&self, ctx: &mut Ctx, case: &Value) -> CheckResult {
        let text = case["text"].as_str().unwrap_or("").to_string();
        let style = style_parse(case["style"].as_str().unwrap_or("plain"));
        let tag = TagK::parse(case["tag"].as_str().unwrap_or("none"));
        let doc = case["path"].as_str() == Some("doc");
        ctx.eval(&|| case.clone(), |_| if doc { check_doc(&text, style, tag) } else { check_api(&text, style, tag) })
    }
}
