//! One module per property; each implements `Property`.

use crate::engine::{CheckResult, Ctx, StreamSpec, Tier};
use serde_json::Value;

pub trait Property: Sync {
    fn id(&self) -> &'static str;
    /// evidence: how cases are generated and what makes one non-trivial / distinct
    fn rule(&self) -> String;
    fn assumptions(&self) -> Vec<String>;
    fn streams(&self, tier: Tier) -> Vec<StreamSpec>;
    fn run_block(&self, ctx: &mut Ctx, stream: &str, block: u64);
    /// re-evaluate one stored case (no proptest, no fuzzer)
    fn replay(&self, ctx: &mut Ctx, case: &Value) -> CheckResult;
    /// does a non-terminating isolated case violate *this* property?
    fn hang_is_violation(&self) -> bool {
        false
    }
    /// does an aborting (signal-killed) isolated case violate this property?
    fn abort_is_violation(&self) -> bool {
        true
    }
    /// block watchdog in seconds
    fn block_timeout_s(&self, _tier: Tier) -> u64 {
        300
    }
}

pub mod c01;
pub mod c02;
pub mod c03;
pub mod c04;
pub mod c05;
pub mod c06;
pub mod c07;
pub mod c08;
pub mod c09;
pub mod c10;
pub mod c11;
pub mod c12;
pub mod c13;
pub mod c14;
pub mod c15;
pub mod c16;
pub mod c17;
pub mod c18;
pub mod c19;
pub mod c20;

pub fn all() -> Vec<&'static dyn Property> {
    vec![&c01::C01, &c02::C02, &c03::C03, &c04::C04, &c05::C05, &c06::C06, &c07::C07, &c08::C08, &c09::C09, &c10::C10, &c11::C11, &c12::C12, &c13::C13, &c14::C14, &c15::C15, &c16::C16, &c17::C17, &c18::C18, &c19::C19, &c20::C20]
}

pub fn get(id: &str) -> Option<&'static dyn Property> {
    all().into_iter().find(|p| p.id() == id)
}
