//! C20 — mapping lookups, equality and hashing are mutually consistent.

use super::Property;
use crate::engine::{panics, CaseInfo, CheckResult, Ctx, StreamSpec, Tier};
use crate::oracle::fold::{m_of_marked, m_of_marked_owned, m_of_owned, m_of_yaml, M};
use crate::{ensure, fail};
use hashlink::LinkedHashMap;
use ordered_float::OrderedFloat;
use proptest::prelude::*;
use saphyr::{LoadableYamlNode, MarkedYaml, MarkedYamlOwned, Scalar, ScalarOwned, ScalarStyle, Yaml, YamlData, YamlDataOwned, YamlOwned};
use saphyr_parser::Span;
use serde_json::{json, Value};
use std::borrow::Cow;
use std::collections::hash_map::DefaultHasher;
use std::hash::{Hash, Hasher};

pub struct C20P;
pub static C20: C20P = C20P;

/// Node model for construction.
#[derive(Clone, Debug, PartialEq)]
pub enum N {
    Null,
    Bool(bool),
    Int(i64),
    Float(f64),
    Str(String),
    Repr(String),
    /// an unresolved representation carrying a tag; the index selects one of `REPR_TAGS`, several of
    /// which spell the same tag URI with a different handle / suffix split
    TaggedRepr(String, u8),
    Bad,
    Seq(Vec<N>),
    Map(Vec<(N, N)>),
}

impl N {
    pub fn to_json(&self) -> Value {
        match self {
            N::Null => json!("null"),
            N::Bool(b) => json!({"bool": b}),
            N::Int(i) => json!({"int": i.to_string()}),
            N::Float(f) => json!({"float_bits": format!("{:016x}", f.to_bits())}),
            N::Str(s) => json!({"str": s}),
            N::Repr(s) => json!({"repr": s}),
            N::TaggedRepr(s, t) => json!({"repr": s, "tag": t}),
            N::Bad => json!("bad"),
            N::Seq(v) => json!({"seq": v.iter().map(|x| x.to_json()).collect::<Vec<_>>()}),
            N::Map(m) => json!({"map": m.iter().map(|(k, v)| json!([k.to_json(), v.to_json()])).collect::<Vec<_>>()}),
        }
    }
    pub fn from_json(j: &Value) -> N {
        if j == "null" {
            return N::Null;
        }
        if j == "bad" {
            return N::Bad;
        }
        if let Some(b) = j.get("bool") {
            return N::Bool(b.as_bool().unwrap_or(false));
        }
        if let Some(i) = j.get("int") {
            return N::Int(i.as_str().and_then(|s| s.parse().ok()).unwrap_or(0));
        }
        if let Some(f) = j.get("float_bits") {
            return N::Float(f64::from_bits(u64::from_str_radix(f.as_str().unwrap_or("0"), 16).unwrap_or(0)));
        }
        if let Some(s) = j.get("str") {
            return N::Str(s.as_str().unwrap_or("").to_string());
        }
        if let Some(s) = j.get("repr") {
            if let Some(t) = j.get("tag").and_then(|t| t.as_u64()) {
                return N::TaggedRepr(s.as_str().unwrap_or("").to_string(), t as u8);
            }
            return N::Repr(s.as_str().unwrap_or("").to_string());
        }
        if let Some(v) = j.get("seq") {
            return N::Seq(v.as_array().map(|a| a.iter().map(N::from_json).collect()).unwrap_or_default());
        }
        if let Some(v) = j.get("map") {
            return N::Map(v.as_array().map(|a| a.iter().map(|p| (N::from_json(&p[0]), N::from_json(&p[1]))).collect()).unwrap_or_default());
        }
        N::Null
    }
}

pub const REPR_TAGS: [(&str, &str); 5] = [("tag:yaml.org,2002:", "str"), ("", "tag:yaml.org,2002:str"), ("tag:yaml.org,", "2002:str"), ("!", "t"), ("", "!t")];

fn repr_tag(i: u8) -> Option<saphyr::Tag> {
    let (h, s) = REPR_TAGS[i as usize % REPR_TAGS.len()];
    Some(saphyr::Tag { handle: h.to_string(), suffix: s.to_string() })
}

thread_local! {
    /// strings of the tree being built, as slices of shared buffers (see `with_shared_slices`)
    static SLICES: std::cell::RefCell<Vec<(String, &'static str)>> = const { std::cell::RefCell::new(Vec::new()) };
}

fn collect_strings(n: &N, out: &mut Vec<String>) {
    match n {
        N::Str(s) => out.push(s.clone()),
        N::Seq(v) => v.iter().for_each(|x| collect_strings(x, out)),
        N::Map(m) => m.iter().for_each(|(k, v)| {
            collect_strings(k, out);
            collect_strings(v, out);
        }),
        _ => {}
    }
}

/// Borrowed strings in real programs are slices of one buffer (the input text, a path and its
/// parents): while `f` builds a tree, every string that is a prefix of a longer string of the same
/// tree is handed out as a slice of that longer string — same start address, other length.
/// A function of the tree only, so a replayed case builds the same pointers.
fn with_shared_slices<R>(n: &N, f: impl FnOnce() -> R) -> R {
    let mut all = vec![];
    collect_strings(n, &mut all);
    all.sort_by(|a, b| b.len().cmp(&a.len()).then(a.cmp(b)));
    all.dedup();
    let mut table: Vec<(String, &'static str)> = vec![];
    for s in all {
        let hit = table.iter().find(|(t, _)| t.starts_with(&s)).map(|(_, st)| &st[..s.len()]);
        let st: &'static str = match hit {
            Some(x) => x,
            None => Box::leak(s.clone().into_boxed_str()),
        };
        table.push((s, st));
    }
    SLICES.with(|c| *c.borrow_mut() = table);
    let r = f();
    SLICES.with(|c| c.borrow_mut().clear());
    r
}

fn borrowed_slice(s: &str) -> &'static str {
    SLICES.with(|c| c.borrow().iter().find(|(t, _)| t == s).map(|(_, st)| *st)).unwrap_or_else(|| Box::leak(s.to_string().into_boxed_str()))
}

fn scalar_of(n: &N, owned_cow: bool) -> Option<Scalar<'static>> {
    Some(match n {
        N::Null => Scalar::Null,
        N::Bool(b) => Scalar::Boolean(*b),
        N::Int(i) => Scalar::Integer(*i),
        N::Float(f) => Scalar::FloatingPoint(OrderedFloat(*f)),
        N::Str(s) => {
            // borrowed vs owned Cow: leak to get a 'static borrow (test process, bounded)
            if owned_cow {
                Scalar::String(Cow::Owned(s.clone()))
            } else {
                Scalar::String(Cow::Borrowed(borrowed_slice(s)))
            }
        }
        _ => return None,
    })
}

pub fn build_yaml(n: &N, owned_cow: bool) -> Yaml<'static> {
    if !owned_cow && SLICES.with(|c| c.borrow().is_empty()) {
        return with_shared_slices(n, || build_yaml_in(n, owned_cow));
    }
    build_yaml_in(n, owned_cow)
}

fn build_yaml_in(n: &N, owned_cow: bool) -> Yaml<'static> {
    match n {
        N::Repr(s) => Yaml::Representation(Cow::Owned(s.clone()), ScalarStyle::Plain, None),
        N::TaggedRepr(s, t) => Yaml::Representation(Cow::Owned(s.clone()), ScalarStyle::Plain, repr_tag(*t)),
        N::Bad => Yaml::BadValue,
        N::Seq(v) => Yaml::Sequence(v.iter().map(|x| build_yaml_in(x, owned_cow)).collect()),
        N::Map(m) => {
            let mut h = LinkedHashMap::new();
            for (k, v) in m {
                h.insert(build_yaml_in(k, owned_cow), build_yaml_in(v, owned_cow));
            }
            Yaml::Mapping(h)
        }
        s => Yaml::Value(scalar_of(s, owned_cow).unwrap()),
    }
}

pub fn build_owned(n: &N) -> YamlOwned {
    match n {
        N::Repr(s) => YamlOwned::Representation(s.clone(), ScalarStyle::Plain, None),
        N::TaggedRepr(s, t) => YamlOwned::Representation(s.clone(), ScalarStyle::Plain, repr_tag(*t)),
        N::Bad => YamlOwned::BadValue,
        N::Seq(v) => YamlOwned::Sequence(v.iter().map(build_owned).collect()),
        N::Map(m) => {
            let mut h = LinkedHashMap::new();
            for (k, v) in m {
                h.insert(build_owned(k), build_owned(v));
            }
            YamlOwned::Mapping(h)
        }
        s => YamlOwned::Value(scalar_of(s, true).unwrap().into_owned()),
    }
}

pub fn build_marked(n: &N, owned_cow: bool, span_seed: &mut usize) -> MarkedYaml<'static> {
    if !owned_cow && SLICES.with(|c| c.borrow().is_empty()) {
        return with_shared_slices(n, || build_marked_in(n, owned_cow, span_seed));
    }
    build_marked_in(n, owned_cow, span_seed)
}

fn build_marked_in(n: &N, owned_cow: bool, span_seed: &mut usize) -> MarkedYaml<'static> {
    *span_seed += 1;
    let span = Span::new(saphyr::Marker::new(*span_seed, 1, *span_seed), saphyr::Marker::new(*span_seed + 1, 1, *span_seed + 1));
    let data = match n {
        N::Repr(s) => YamlData::Representation(Cow::Owned(s.clone()), ScalarStyle::Plain, None),
        N::TaggedRepr(s, t) => YamlData::Representation(Cow::Owned(s.clone()), ScalarStyle::Plain, repr_tag(*t)),
        N::Bad => YamlData::BadValue,
        N::Seq(v) => YamlData::Sequence(v.iter().map(|x| build_marked_in(x, owned_cow, span_seed)).collect()),
        N::Map(m) => {
            let mut h = LinkedHashMap::new();
            for (k, v) in m {
                h.insert(build_marked_in(k, owned_cow, span_seed), build_marked_in(v, owned_cow, span_seed));
            }
            YamlData::Mapping(h)
        }
        s => YamlData::Value(scalar_of(s, owned_cow).unwrap()),
    };
    MarkedYaml { span, data }
}

pub fn build_marked_owned(n: &N, span_seed: &mut usize) -> MarkedYamlOwned {
    *span_seed += 1;
    let span = Span::new(saphyr::Marker::new(*span_seed, 2, 0), saphyr::Marker::new(*span_seed + 3, 2, 3));
    let data = match n {
        N::Repr(s) => YamlDataOwned::Representation(s.clone(), ScalarStyle::Plain, None),
        N::TaggedRepr(s, t) => YamlDataOwned::Representation(s.clone(), ScalarStyle::Plain, repr_tag(*t)),
        N::Bad => YamlDataOwned::BadValue,
        N::Seq(v) => YamlDataOwned::Sequence(v.iter().map(|x| build_marked_owned(x, span_seed)).collect()),
        N::Map(m) => {
            let mut h = LinkedHashMap::new();
            for (k, v) in m {
                h.insert(build_marked_owned(k, span_seed), build_marked_owned(v, span_seed));
            }
            YamlDataOwned::Mapping(h)
        }
        s => YamlDataOwned::Value(scalar_of(s, true).unwrap().into_owned()),
    };
    MarkedYamlOwned { span, data }
}

/// The model: the entries of a mapping after insertion (later duplicate wins), as the library's
/// `Eq` sees keys.
fn model_entries(pairs: &[(N, N)]) -> Vec<(M, M)> {
    let y = build_yaml(&N::Map(pairs.to_vec()), true);
    match m_of_yaml(&y) {
        M::Map(p) => p,
        _ => vec![],
    }
}

fn model_found<'a>(entries: &'a [(M, M)], k: &str) -> Option<&'a M> {
    entries.iter().rev().find(|(key, _)| matches!(key, M::Str(s) if s == k)).map(|(_, v)| v)
}

fn h<T: Hash>(t: &T) -> u64 {
    let mut s = DefaultHasher::new();
    t.hash(&mut s);
    s.finish()
}

macro_rules! check_lookups {
    ($who:expr, $node:expr, $data:expr, $data_mut:expr, $to_m:expr, $needle:expr, $entries:expr, $probes:expr) => {{
        for k in $probes {
            let want: Option<&M> = model_found($entries, k);
            let who = $who;
            // as_mapping_get
            let got = $data.as_mapping_get(k).map(|v| $to_m(v));
            ensure!(got.as_ref() == want, "as_mapping_get", "{who}: as_mapping_get({k:?}) = {got:?}, model says {want:?}");
            // contains_mapping_key
            ensure!($data.contains_mapping_key(k) == want.is_some(), "contains_mapping_key", "{who}: contains_mapping_key({k:?}) = {}, model says {}", !want.is_some(), want.is_some());
            // Index<&str> panics exactly when absent
            let idx = panics(|| $to_m(&$data[k.as_str()]));
            match (&idx, want) {
                (Ok(g), Some(w)) => ensure!(g == w, "index-str", "{who}: node[{k:?}] = {g:?}, model says {w:?}"),
                (Err(_), None) => {}
                (Ok(g), None) => fail!("index-str", "{who}: node[{k:?}] returned {g:?} although no string key equals it (must panic)"),
                (Err(m), Some(w)) => fail!("index-str", "{who}: node[{k:?}] panicked ({m}) although the model finds {w:?}"),
            }
            // as_mapping_get_mut
            let got = $data_mut.as_mapping_get_mut(k).map(|v| $to_m(&*v));
            ensure!(got.as_ref() == want, "as_mapping_get_mut", "{who}: as_mapping_get_mut({k:?}) = {got:?}, model says {want:?}");
            // IndexMut<&str>
            let idx = panics(|| $to_m(&$data_mut[k.as_str()]));
            match (&idx, want) {
                (Ok(g), Some(w)) => ensure!(g == w, "index-mut-str", "{who}: IndexMut node[{k:?}] = {g:?}, model says {w:?}"),
                (Err(_), None) => {}
                (Ok(g), None) => fail!("index-mut-str", "{who}: IndexMut node[{k:?}] returned {g:?} for an absent key (must panic)"),
                (Err(m), Some(w)) => fail!("index-mut-str", "{who}: IndexMut node[{k:?}] panicked ({m}) although the model finds {w:?}"),
            }
            // explicit lookup with a built string node
            let got = $data.as_mapping().and_then(|m| m.get(&$needle(k))).map(|v| $to_m(v));
            ensure!(got.as_ref() == want, "explicit-lookup", "{who}: mapping.get(String({k:?})) = {got:?}, model says {want:?}");
        }
    }};
}

macro_rules! check_int_index {
    ($who:expr, $data:expr, $data_mut:expr, $to_m:expr, $int_needle:expr, $indices:expr) => {{
        for i in $indices {
            let who = $who;
            let i: usize = *i;
            let via_get: Option<M> = if $data.is_sequence() {
                $data.as_sequence_get(i).map(|v| $to_m(v))
            } else if let Some(m) = $data.as_mapping() {
                i64::try_from(i).ok().and_then(|k| m.get(&$int_needle(k))).map(|v| $to_m(v))
            } else {
                None
            };
            let idx = panics(|| $to_m(&$data[i]));
            match (&idx, &via_get) {
                (Ok(g), Some(w)) => ensure!(g == w, "index-usize", "{who}: node[{i}] = {g:?}, get gives {w:?}"),
                (Err(_), None) => {}
                (Ok(g), None) => fail!("index-usize", "{who}: node[{i}] returned {g:?} although get finds nothing (must panic)"),
                (Err(m), Some(w)) => fail!("index-usize", "{who}: node[{i}] panicked ({m}) although get finds {w:?}"),
            }
            let idx = panics(|| $to_m(&$data_mut[i]));
            match (&idx, &via_get) {
                (Ok(g), Some(w)) => ensure!(g == w, "index-mut-usize", "{who}: IndexMut node[{i}] = {g:?}, get gives {w:?}"),
                (Err(_), None) => {}
                (Ok(g), None) => fail!("index-mut-usize", "{who}: IndexMut node[{i}] returned {g:?} although get finds nothing"),
                (Err(m), Some(w)) => fail!("index-mut-usize", "{who}: IndexMut node[{i}] panicked ({m}) although get finds {w:?}"),
            }
            if $data.is_sequence() {
                let a = $data_mut.as_sequence_get_mut(i).map(|v| $to_m(&*v));
                ensure!(a == via_get, "as_sequence_get_mut", "{who}: as_sequence_get_mut({i}) = {a:?}, as_sequence_get gives {via_get:?}");
            }
        }
    }};
}

pub fn check_node(info: &mut CaseInfo, node: &N, probes: &[String], indices: &[usize]) -> CheckResult {
    let entries: Vec<(M, M)> = match node {
        N::Map(p) => model_entries(p),
        _ => vec![],
    };
    // --- Yaml (borrowed and owned Cow spellings)
    for owned_cow in [false, true] {
        let y = build_yaml(node, owned_cow);
        let mut ym = y.clone();
        let needle = |k: &str| Yaml::Value(Scalar::String(Cow::Owned(k.to_string())));
        check_lookups!(if owned_cow { "Yaml(owned Cow)" } else { "Yaml(borrowed Cow)" }, y, y, ym, m_of_yaml, needle, &entries, probes);
        let int_needle = |k: i64| Yaml::Value(Scalar::Integer(k));
        check_int_index!("Yaml", y, ym, m_of_yaml, int_needle, indices);
    }
    // --- YamlOwned
    {
        let y = build_owned(node);
        let mut ym = y.clone();
        let needle = |k: &str| YamlOwned::Value(ScalarOwned::String(k.to_string()));
        check_lookups!("YamlOwned", y, y, ym, m_of_owned, needle, &entries, probes);
        let int_needle = |k: i64| YamlOwned::Value(ScalarOwned::Integer(k));
        check_int_index!("YamlOwned", y, ym, m_of_owned, int_needle, indices);
    }
    // --- MarkedYaml
    {
        let mut seed = 0;
        let y = build_marked(node, false, &mut seed);
        let mut ym = y.clone();
        let needle = |k: &str| MarkedYaml { span: Span::default(), data: YamlData::Value(Scalar::String(Cow::Owned(k.to_string()))) };
        check_lookups!("MarkedYaml", y, y.data, ym.data, m_of_marked, needle, &entries, probes);
        let int_needle = |k: i64| MarkedYaml { span: Span::default(), data: YamlData::Value(Scalar::Integer(k)) };
        check_int_index!("MarkedYaml", y.data, ym.data, m_of_marked, int_needle, indices);
    }
    // --- MarkedYamlOwned
    {
        let mut seed = 0;
        let y = build_marked_owned(node, &mut seed);
        let mut ym = y.clone();
        let needle = |k: &str| MarkedYamlOwned { span: Span::default(), data: YamlDataOwned::Value(ScalarOwned::String(k.to_string())) };
        check_lookups!("MarkedYamlOwned", y, y.data, ym.data, m_of_marked_owned, needle, &entries, probes);
        let int_needle = |k: i64| MarkedYamlOwned { span: Span::default(), data: YamlDataOwned::Value(ScalarOwned::Integer(k)) };
        check_int_index!("MarkedYamlOwned", y.data, ym.data, m_of_marked_owned, int_needle, indices);
    }
    let hits = probes.iter().filter(|k| model_found(&entries, k).is_some()).count();
    if let N::Map(p) = node {
        let nonstr = p.iter().any(|(k, _)| !matches!(k, N::Str(_)));
        if p.len() >= 2 && nonstr && hits > 0 && hits < probes.len() {
            info.nontrivial(&format!("{node:?}{probes:?}"));
        }
        info.class_if(nonstr, "non-string-key");
        info.class_if(hits > 0, "probe-hit");
        info.class_if(hits < probes.len(), "probe-miss");
    } else {
        info.class("sequence-or-scalar");
        if indices.len() > 1 {
            info.nontrivial(&format!("{node:?}{indices:?}"));
        }
    }
    Ok(())
}

/// a == b  =>  hash(a) == hash(b), over respellings and chance collisions
pub fn check_eq_hash(info: &mut CaseInfo, a: &N, b: &N) -> CheckResult {
    let (ya, yb) = (build_yaml(a, false), build_yaml(b, true));
    if ya == yb {
        info.class("equal-pair");
        ensure!(h(&ya) == h(&yb), "eq-but-hash-differs", "Yaml: {ya:?} == {yb:?} but their hashes differ");
        let mut m = LinkedHashMap::new();
        m.insert(ya.clone(), 1u8);
        ensure!(m.get(&yb) == Some(&1), "eq-but-hash-differs", "Yaml: {ya:?} == {yb:?} but a map keyed by one does not find the other");
    } else {
        info.class("unequal-pair");
    }
    let (oa, ob) = (build_owned(a), build_owned(b));
    ensure!((oa == ob) == (ya == yb), "eq-differs-between-types", "YamlOwned equality {} but Yaml equality {} for {a:?} / {b:?}", oa == ob, ya == yb);
    if oa == ob {
        ensure!(h(&oa) == h(&ob), "eq-but-hash-differs", "YamlOwned: {oa:?} == {ob:?} but their hashes differ");
    }
    let (mut s1, mut s2) = (0, 500);
    let (ma, mb) = (build_marked(a, false, &mut s1), build_marked(b, true, &mut s2));
    ensure!((ma == mb) == (ya == yb), "eq-differs-between-types", "MarkedYaml equality {} but Yaml equality {} for {a:?} / {b:?}", ma == mb, ya == yb);
    if ma == mb {
        ensure!(h(&ma) == h(&mb), "eq-but-hash-differs", "MarkedYaml: equal nodes (other spans, other Cow) hash differently: {a:?}");
    }
    let (mut s1, mut s2) = (0, 900);
    let (wa, wb) = (build_marked_owned(a, &mut s1), build_marked_owned(b, &mut s2));
    ensure!((wa == wb) == (ya == yb), "eq-differs-between-types", "MarkedYamlOwned equality {} but Yaml equality {}", wa == wb, ya == yb);
    if wa == wb {
        ensure!(h(&wa) == h(&wb), "eq-but-hash-differs", "MarkedYamlOwned: equal nodes hash differently: {a:?}");
    }
    // a borrowed node and its owned conversion agree through the shared string view
    if let (Yaml::Value(sa), YamlOwned::Value(so)) = (&ya, &oa) {
        ensure!(*sa == so.as_scalar(), "as_scalar-differs", "Scalar {sa:?} vs ScalarOwned::as_scalar {:?}", so.as_scalar());
        ensure!(h(sa) == h(&so.as_scalar()), "eq-but-hash-differs", "Scalar vs ScalarOwned::as_scalar hash differently");
    }
    info.nontrivial(&format!("{a:?}{b:?}"));
    Ok(())
}

// ---- generators --------------------------------------------------------------------------------

const KEY_TEXTS: &[&str] = &["a", "b", "key", "1", "01", "1.0", "true", "True", "~", "", "null", "A", "Key", "é", "0x1", "[]", "{}", "x y", "-1", "2"];

fn scalar_key() -> impl Strategy<Value = N> {
    crate::oneof![
        5 => proptest::sample::select(KEY_TEXTS).prop_map(|s| N::Str(s.to_string())),
        1 => "[a-c]{1,2}".prop_map(N::Str),
        2 => (-2i64..4).prop_map(N::Int),
        1 => proptest::sample::select(vec![1.0, 0.0, -0.0, f64::NAN, f64::from_bits(0x7ff8000000000001), f64::INFINITY, 2.5]).prop_map(N::Float),
        1 => Just(N::Null),
        1 => any::<bool>().prop_map(N::Bool),
        1 => proptest::sample::select(KEY_TEXTS).prop_map(|s| N::Repr(s.to_string())),
        1 => (proptest::sample::select(vec!["a", "1", "x"]), 0u8..5).prop_map(|(s, t)| N::TaggedRepr(s.to_string(), t)),
        1 => Just(N::Bad),
    ]
}

fn small_node() -> impl Strategy<Value = N> {
    crate::engine::recursive(scalar_key().boxed(), 2, 8, 3, |inner| {
        crate::oneof![
            proptest::collection::vec(inner.clone(), 0..3).prop_map(N::Seq),
            proptest::collection::vec((inner.clone(), inner.clone()), 0..3).prop_map(N::Map),
        ]
    })
}

pub fn mapping() -> impl Strategy<Value = N> {
    proptest::collection::vec((crate::oneof![4 => scalar_key(), 1 => small_node()], crate::oneof![3 => (0i64..100).prop_map(N::Int), 1 => small_node()]), 0..7).prop_map(N::Map)
}

pub fn probes_for(node: &N, extra: &[String]) -> Vec<String> {
    let mut v: Vec<String> = vec![];
    if let N::Map(p) = node {
        for (k, _) in p {
            let t = match k {
                N::Str(s) | N::Repr(s) | N::TaggedRepr(s, _) => s.clone(),
                N::Int(i) => i.to_string(),
                N::Float(f) => format!("{f:?}"),
                N::Null => "~".into(),
                N::Bool(b) => b.to_string(),
                _ => "[]".into(),
            };
            v.push(t.to_uppercase());
            v.push(t.to_lowercase());
            v.push(format!("{t} "));
            v.push(t);
        }
    }
    v.extend(KEY_TEXTS.iter().map(|s| s.to_string()));
    v.extend(extra.iter().cloned());
    v.push("absent-key".into());
    v.sort();
    v.dedup();
    v
}

fn respell(n: &N, sel: u8) -> N {
    // near misses: nodes that are *different* for a correct equality (entries in another order, the
    // integer / float twin of a number, the text of a value) — if an equality ever equates them,
    // hashing and the other node types have to follow
    match n {
        N::Map(m) if sel & 4 != 0 && m.len() > 1 => return N::Map(m.iter().rev().map(|(k, v)| (respell(k, sel), respell(v, sel))).collect()),
        N::Int(i) if sel & 8 != 0 && i.unsigned_abs() < (1 << 53) => return N::Float(*i as f64),
        N::Float(f) if sel & 8 != 0 && f.fract() == 0.0 && f.abs() < 9.0e15 && *f != 0.0 => return N::Int(*f as i64),
        N::Int(i) if sel & 16 != 0 => return N::Str(i.to_string()),
        N::Bool(b) if sel & 16 != 0 => return N::Str(b.to_string()),
        N::Null if sel & 16 != 0 => return N::Str("~".to_string()),
        N::Str(t) if sel & 16 != 0 => return N::Repr(t.clone()),
        _ => {}
    }
    // a node that should compare equal: other NaN payload, other zero sign
    match n {
        N::Float(f) if f.is_nan() => N::Float(f64::from_bits(0x7ff8_0000_0000_0000 | (sel as u64 + 1))),
        N::Float(f) if *f == 0.0 => N::Float(if sel % 2 == 0 { 0.0 } else { -0.0 }),
        // another handle / suffix split of a tag: a different node unless Tag equality says otherwise,
        // and then it has to hash equally
        N::TaggedRepr(s, t) => N::TaggedRepr(s.clone(), t.wrapping_add(sel % 3)),
        N::Seq(v) => N::Seq(v.iter().map(|x| respell(x, sel)).collect()),
        N::Map(m) => N::Map(m.iter().map(|(k, v)| (respell(k, sel), respell(v, sel))).collect()),
        other => other.clone(),
    }
}

const BLOCK: u64 = 5000;
fn lookup_cases(tier: Tier) -> u64 {
    tier.pick(240_000, 2_000_000)
}
fn eq_cases(tier: Tier) -> u64 {
    tier.pick(160_000, 1_000_000)
}

impl Property for C20P {
    fn id(&self) -> &'static str {
        "C20"
    }
    fn rule(&self) -> String {
        "(lookups) proptest mappings of 0..6 pairs whose keys are strings from a pool of type-like texts, integers, floats (incl. NaN \
         payloads, +-0), null, booleans, unresolved representations (untagged, and tagged with several handle / suffix splits of the same URI), BadValue, sequences and mappings, built as Yaml (borrowed — strings that are prefixes of one another share their start address, as slices of one buffer do — and owned \
         Cow), YamlOwned, MarkedYaml and MarkedYamlOwned; probes = every key's text, its upper / lower case and padded variants, the \
         pool, generated strings and an absent string; model: found(k) iff some key is a resolved string equal to k (last such entry). \
         as_mapping_get, contains_mapping_key, Index<&str> (panic iff absent), as_mapping_get_mut, IndexMut<&str> and get(&String node) \
         must all agree with the model. Sequences and mappings are also indexed with usize from {0, len-1, len, 2^40, usize::MAX}: \
         node[i] panics iff get finds nothing. (eq/hash) pairs (a, respelling of a — other NaN payload / zero sign / tag split — | near miss of a — mapping entries reversed, integer / float twin, text of a value, unresolved twin of a string — | independent small node): a == b => equal hashes \
         and mutual map lookup, equality agrees across the four node types. Non-trivial (lookups) = >= 2 keys incl. a non-string key with \
         probe hits and misses; distinct by (node, probes)."
            .into()
    }
    fn assumptions(&self) -> Vec<String> {
        vec!["std DefaultHasher and hashlink's LinkedHashMap are the observers of Hash".into()]
    }
    fn streams(&self, tier: Tier) -> Vec<StreamSpec> {
        vec![
            StreamSpec::new("lookups", lookup_cases(tier).div_ceil(BLOCK), false, &format!("{} generated (mapping | sequence, probe set, index set) x 5 node spellings x 6 access paths", lookup_cases(tier))),
            StreamSpec::new("eq-hash", eq_cases(tier).div_ceil(BLOCK), false, &format!("{} generated node pairs", eq_cases(tier))),
            StreamSpec::new("loaded", 1, true, "mappings loaded from the corpus and golden documents, probed with their own key texts"),
        ]
    }
    fn run_block(&self, ctx: &mut Ctx, stream: &str, block: u64) {
        match stream {
            "lookups" => {
                let total = lookup_cases(ctx.tier);
                let n = (total - (block * BLOCK).min(total)).min(BLOCK) as u32;
                let strat = (crate::oneof![5 => mapping(), 1 => proptest::collection::vec(small_node(), 0..5).prop_map(N::Seq), 1 => proptest::collection::vec(((0i64..6).prop_map(N::Int), small_node()), 0..5).prop_map(N::Map)], proptest::collection::vec("[a-c1~ ]{0,3}", 0..3));
                crate::engine::run_proptest(
                    ctx,
                    strat,
                    n,
                    |(node, extra)| json!({"kind": "lookup", "node": node.to_json(), "extra_probes": extra}),
                    |ctx, (node, extra)| {
                        let probes = probes_for(node, extra);
                        let len = match node {
                            N::Seq(v) => v.len(),
                            N::Map(m) => m.len(),
                            _ => 0,
                        };
                        let mut indices = vec![0usize, len, 1usize << 40, usize::MAX, 3];
                        if len > 0 {
                            indices.push(len - 1);
                        }
                        ctx.eval(&|| json!({"kind": "lookup", "node": node.to_json(), "extra_probes": extra}), |info| check_node(info, node, &probes, &indices))
                    },
                );
            }
            "eq-hash" => {
                let total = eq_cases(ctx.tier);
                let n = (total - (block * BLOCK).min(total)).min(BLOCK) as u32;
                crate::engine::run_proptest(
                    ctx,
                    (small_node(), small_node(), any::<u8>(), any::<bool>()),
                    n,
                    |(a, b, sel, indep)| json!({"kind": "eq", "a": a.to_json(), "b": if *indep { b.to_json() } else { respell(a, *sel).to_json() }}),
                    |ctx, (a, b, sel, indep)| {
                        let b2 = if *indep { b.clone() } else { respell(a, *sel) };
                        ctx.eval(&|| json!({"kind": "eq", "a": a.to_json(), "b": b2.to_json()}), |info| check_eq_hash(info, a, &b2))
                    },
                );
            }
            _ => {
                for doc in crate::gen::seed_docs() {
                    let Ok(docs) = Yaml::load_from_str(doc) else { continue };
                    for d in &docs {
                        walk_loaded(ctx, d);
                    }
                }
            }
        }
    }
    fn replay(&self, ctx: &mut Ctx, case: &Value) -> CheckResult {
        if case["kind"] == "eq" {
            let (a, b) = (N::from_json(&case["a"]), N::from_json(&case["b"]));
            return ctx.eval(&|| case.clone(), |info| check_eq_hash(info, &a, &b));
        }
        let node = N::from_json(&case["node"]);
        let extra: Vec<String> = case["extra_probes"].as_array().map(|a| a.iter().filter_map(|x| x.as_str().map(|s| s.to_string())).collect()).unwrap_or_default();
        let probes = probes_for(&node, &extra);
        let len = match &node {
            N::Seq(v) => v.len(),
            N::Map(m) => m.len(),
            _ => 0,
        };
        let mut indices = vec![0usize, len, 1usize << 40, usize::MAX, 3];
        if len > 0 {
            indices.push(len - 1);
        }
        ctx.eval(&|| case.clone(), |info| check_node(info, &node, &probes, &indices))
    }
}

fn n_of_yaml(y: &Yaml) -> N {
    match y {
        Yaml::Value(Scalar::Null) => N::Null,
        Yaml::Value(Scalar::Boolean(b)) => N::Bool(*b),
        Yaml::Value(Scalar::Integer(i)) => N::Int(*i),
        Yaml::Value(Scalar::FloatingPoint(f)) => N::Float(f.into_inner()),
        Yaml::Value(Scalar::String(s)) => N::Str(s.to_string()),
        Yaml::Representation(s, _, _) => N::Repr(s.to_string()),
        Yaml::Sequence(v) => N::Seq(v.iter().map(n_of_yaml).collect()),
        Yaml::Mapping(m) => N::Map(m.iter().map(|(k, v)| (n_of_yaml(k), n_of_yaml(v))).collect()),
        _ => N::Bad,
    }
}

fn walk_loaded(ctx: &mut Ctx, y: &Yaml) {
    match y {
        Yaml::Mapping(m) => {
            let node = n_of_yaml(y);
            let probes = probes_for(&node, &[]);
            let idx = [0usize, m.len(), 1];
            let json = || json!({"kind": "lookup", "node": node.to_json(), "extra_probes": []});
            if let Err(f) = ctx.eval(&json, |info| check_node(info, &node, &probes, &idx)) {
                ctx.record(json(), &f);
            }
            for (k, v) in m.iter() {
                walk_loaded(ctx, k);
                walk_loaded(ctx, v);
            }
        }
        Yaml::Sequence(v) => {
            for x in v {
                walk_loaded(ctx, x);
            }
        }
        _ => {}
    }
}

#[allow(dead_code)]
fn _unused(_: Option<MarkedYaml>, _: Option<MarkedYamlOwned>) {
    let _ = MarkedYaml::load_from_str;
}
