//! C19 — all node types and loading modes hold the same data.

use super::Property;
use crate::engine::{case_text, text_case, CaseInfo, CheckResult, Ctx, StreamSpec, Tier};
use crate::gen::{self, TextPlan};
use crate::oracle::fold::{lib_resolver, m_of_marked, m_of_marked_owned, m_of_owned, m_of_yaml, M};
use crate::{ensure, fail};
use hashlink::LinkedHashMap;
use saphyr::{
    AnnotatedNode, AnnotatedNodeOwned, LoadableYamlNode, MarkedYaml, MarkedYamlOwned, Scalar, Yaml, YamlData, YamlDataOwned, YamlLoader, YamlOwned,
};
use saphyr_parser::{Marker, Parser, Span};
use serde_json::Value;
use std::collections::hash_map::DefaultHasher;
use std::hash::{Hash, Hasher};

pub struct C19P;
pub static C19: C19P = C19P;

fn plan(tier: Tier) -> TextPlan {
    gen::plan(tier, 1.0)
}

fn weird_span(seed: usize) -> Span {
    Span::new(Marker::new(1000 + seed, 77, 5), Marker::new(2000 + seed, 99, 9))
}

fn respan(n: &MarkedYaml<'_>, seed: &mut usize) -> MarkedYaml<'static> {
    *seed += 1;
    let span = weird_span(*seed);
    let data = match &n.data {
        YamlData::Representation(v, s, t) => YamlData::Representation(v.to_string().into(), *s, t.clone()),
        YamlData::Value(s) => YamlData::Value(match s {
            Scalar::String(x) => Scalar::String(x.to_string().into()),
            Scalar::Null => Scalar::Null,
            Scalar::Boolean(b) => Scalar::Boolean(*b),
            Scalar::Integer(i) => Scalar::Integer(*i),
            Scalar::FloatingPoint(f) => Scalar::FloatingPoint(*f),
        }),
        YamlData::Sequence(v) => YamlData::Sequence(v.iter().map(|x| respan(x, seed)).collect()),
        YamlData::Mapping(m) => {
            let mut out = LinkedHashMap::new();
            for (k, v) in m.iter() {
                out.insert(respan(k, seed), respan(v, seed));
            }
            YamlData::Mapping(out)
        }
        YamlData::Alias(i) => YamlData::Alias(*i),
        YamlData::BadValue => YamlData::BadValue,
    };
    MarkedYaml { span, data }
}

fn respan_owned(n: &MarkedYamlOwned, seed: &mut usize) -> MarkedYamlOwned {
    *seed += 1;
    let span = weird_span(*seed);
    let data = match &n.data {
        YamlDataOwned::Sequence(v) => YamlDataOwned::Sequence(v.iter().map(|x| respan_owned(x, seed)).collect()),
        YamlDataOwned::Mapping(m) => {
            let mut out = LinkedHashMap::new();
            for (k, v) in m.iter() {
                out.insert(respan_owned(k, seed), respan_owned(v, seed));
            }
            YamlDataOwned::Mapping(out)
        }
        other => other.clone(),
    };
    MarkedYamlOwned { span, data }
}

fn h<T: Hash>(t: &T) -> u64 {
    let mut s = DefaultHasher::new();
    t.hash(&mut s);
    s.finish()
}

fn load_deferred<'a, N: LoadableYamlNode<'a>>(input: &'a str) -> Result<Vec<N>, String> {
    let mut loader = YamlLoader::<N>::default();
    loader.early_parse(false);
    let mut p = Parser::new_from_str(input);
    p.load(&mut loader, true).map_err(|e| e.to_string())?;
    Ok(loader.into_documents())
}

/// does the unresolved tree contain a representation that the resolver turns into BadValue?
fn has_bad_repr(m: &M) -> bool {
    m.any(&|x| matches!(x, M::Repr(t, s, tag) if lib_resolver(t, *s, tag) == M::Bad))
}

pub fn check_input(info: &mut CaseInfo, input: &str) -> CheckResult {
    let y = Yaml::load_from_str(input);
    let yo = YamlOwned::load_from_str(input);
    let my = MarkedYaml::load_from_str(input);
    let mo = MarkedYamlOwned::load_from_str(input);
    let docs = match (&y, &yo, &my, &mo) {
        (Err(a), Err(b), Err(c), Err(d)) => {
            ensure!(a == b && a == c && a == d, "error-differs", "the four loaders report different errors: {a} | {b} | {c} | {d}");
            info.class("rejected");
            return Ok(());
        }
        (Ok(a), Ok(_), Ok(_), Ok(_)) => a,
        _ => fail!("outcome-differs", "loaders disagree on success: Yaml={} YamlOwned={} MarkedYaml={} MarkedYamlOwned={}", y.is_ok(), yo.is_ok(), my.is_ok(), mo.is_ok()),
    };
    let (yo, my, mo) = (yo.unwrap(), my.unwrap(), mo.unwrap());
    let base: Vec<M> = docs.iter().map(m_of_yaml).collect();
    let b2: Vec<M> = yo.iter().map(m_of_owned).collect();
    let b3: Vec<M> = my.iter().map(m_of_marked).collect();
    let b4: Vec<M> = mo.iter().map(m_of_marked_owned).collect();
    ensure!(base == b2, "node-types-differ", "Yaml vs YamlOwned: {:?} vs {:?}", base, b2);
    ensure!(base == b3, "node-types-differ", "Yaml vs MarkedYaml: {:?} vs {:?}", base, b3);
    ensure!(base == b4, "node-types-differ", "Yaml vs MarkedYamlOwned: {:?} vs {:?}", base, b4);

    // marked nodes: equality and hashing ignore the spans
    for d in &my {
        let mut seed = 0;
        let r = respan(d, &mut seed);
        ensure!(*d == r, "marked-eq-uses-span", "MarkedYaml: node != the same node with other spans");
        ensure!(h(d) == h(&r), "marked-hash-uses-span", "MarkedYaml: hash changes with the spans");
        let mut map: LinkedHashMap<MarkedYaml<'_>, u8> = LinkedHashMap::new();
        map.insert(d.clone(), 1);
        ensure!(map.get(&r) == Some(&1), "marked-hash-uses-span", "MarkedYaml: a map lookup with a re-spanned key fails");
    }
    for d in &mo {
        let mut seed = 0;
        let r = respan_owned(d, &mut seed);
        ensure!(*d == r, "marked-eq-uses-span", "MarkedYamlOwned: node != the same node with other spans");
        ensure!(h(d) == h(&r), "marked-hash-uses-span", "MarkedYamlOwned: hash changes with the spans");
        let mut map: LinkedHashMap<MarkedYamlOwned, u8> = LinkedHashMap::new();
        map.insert(d.clone(), 1);
        ensure!(map.get(&r) == Some(&1), "marked-hash-uses-span", "MarkedYamlOwned: a map lookup with a re-spanned key fails");
    }
    // the same document with a comment line prepended (all spans shift)
    let shifted = format!("# c\n{input}");
    if let Ok(sd) = MarkedYaml::load_from_str(&shifted) {
        let sm: Vec<M> = sd.iter().map(m_of_marked).collect();
        if sm == base {
            info.class("comment-shift-compared");
            ensure!(sd == my, "marked-eq-uses-span", "MarkedYaml documents loaded from the input and from '# c\\n' + input differ under ==");
            for (a, b) in sd.iter().zip(my.iter()) {
                ensure!(h(a) == h(b), "marked-hash-uses-span", "MarkedYaml hash differs after shifting the document by a comment line");
            }
        }
    }

    // deferred resolution
    let dy: Vec<Yaml> = load_deferred(input).map_err(|e| crate::engine::Fail::new("deferred-load-error", e))?;
    let deferred_m: Vec<M> = dy.iter().map(m_of_yaml).collect();
    let mut resolved = dy.clone();
    for (i, d) in resolved.iter_mut().enumerate() {
        let ok = d.parse_representation_recursive();
        let want_ok = !has_bad_repr(&deferred_m[i]);
        ensure!(ok == want_ok, "deferred-return-value", "Yaml::parse_representation_recursive returned {ok}, but a representation that resolves to BadValue is {} in {}", if want_ok { "absent" } else { "present" }, deferred_m[i].short());
    }
    let rm: Vec<M> = resolved.iter().map(m_of_yaml).collect();
    ensure!(rm == base, "deferred-differs", "Yaml: early_parse(false) + parse_representation_recursive gives {:?}, eager load gives {:?}", rm, base);
    {
        let mut d: Vec<YamlOwned> = load_deferred(input).map_err(|e| crate::engine::Fail::new("deferred-load-error", e))?;
        for x in d.iter_mut() {
            x.parse_representation_recursive();
        }
        let m: Vec<M> = d.iter().map(m_of_owned).collect();
        ensure!(m == base, "deferred-differs", "YamlOwned: deferred + resolve gives {:?}, eager gives {:?}", m, base);
    }
    {
        let mut d: Vec<MarkedYaml> = load_deferred(input).map_err(|e| crate::engine::Fail::new("deferred-load-error", e))?;
        for x in d.iter_mut() {
            AnnotatedNode::parse_representation_recursive(x);
        }
        let m: Vec<M> = d.iter().map(m_of_marked).collect();
        ensure!(m == base, "deferred-differs", "MarkedYaml: deferred + resolve gives {:?}, eager gives {:?}", m, base);
    }
    {
        let mut d: Vec<MarkedYamlOwned> = load_deferred(input).map_err(|e| crate::engine::Fail::new("deferred-load-error", e))?;
        for x in d.iter_mut() {
            AnnotatedNodeOwned::parse_representation_recursive(x);
        }
        let m: Vec<M> = d.iter().map(m_of_marked_owned).collect();
        ensure!(m == base, "deferred-differs", "MarkedYamlOwned: deferred + resolve gives {:?}, eager gives {:?}", m, base);
    }

    // resolving an already-resolved tree leaves it untouched
    let mut again = docs.clone();
    for d in again.iter_mut() {
        let ok = d.parse_representation_recursive();
        ensure!(ok, "resolve-resolved-returns-false", "parse_representation_recursive on a resolved tree returned false");
    }
    let am: Vec<M> = again.iter().map(m_of_yaml).collect();
    ensure!(am == base, "resolve-resolved-changes", "parse_representation_recursive changed an already-resolved tree: {:?} -> {:?}", base, am);
    let mut again = docs.clone();
    for d in again.iter_mut() {
        d.parse_representation();
    }
    let am: Vec<M> = again.iter().map(m_of_yaml).collect();
    ensure!(am == base, "resolve-resolved-changes", "parse_representation changed an already-resolved node: {:?} -> {:?}", base, am);
    {
        let mut again = yo.clone();
        for d in again.iter_mut() {
            d.parse_representation_recursive();
        }
        let am: Vec<M> = again.iter().map(m_of_owned).collect();
        ensure!(am == base, "resolve-resolved-changes", "YamlOwned::parse_representation_recursive changed a resolved tree: {:?} -> {:?}", base, am);
        let mut again = my.clone();
        for d in again.iter_mut() {
            AnnotatedNode::parse_representation_recursive(d);
        }
        let am: Vec<M> = again.iter().map(m_of_marked).collect();
        ensure!(am == base, "resolve-resolved-changes", "MarkedYaml::parse_representation_recursive changed a resolved tree: {:?} -> {:?}", base, am);
    }

    let has_coll = base.iter().any(|d| matches!(d, M::Seq(_) | M::Map(_)));
    let has_nonstr = base.iter().any(|d| d.any(&|m| matches!(m, M::Null | M::Bool(_) | M::Int(_) | M::Float(_) | M::Bad)));
    if has_coll && has_nonstr {
        info.nontrivial(input);
    }
    info.class("accepted");
    info.class_if(base.iter().any(|d| d.any(&|m| matches!(m, M::Bad))), "badvalue");
    Ok(())
}

impl Property for C19P {
    fn id(&self) -> &'static str {
        "C19"
    }
    fn rule(&self) -> String {
        "C01's text input spaces (and rendered documents). For every input the four load_from_str results are converted to one model \
         and must be equal (or the four errors equal). MarkedYaml / MarkedYamlOwned: a deep copy with all spans replaced must be == and \
         hash equally (std DefaultHasher) and be found as a key in a LinkedHashMap; the same document shifted by a comment line must be \
         == and hash equally. Deferred resolution: YamlLoader::early_parse(false) + parse_representation_recursive on all four node \
         types must equal the eager load, the return value must be false exactly when a representation resolving to BadValue is \
         present; parse_representation(_recursive) on resolved trees must change nothing. Non-trivial = accepted, >= 1 collection and \
         >= 1 non-string scalar; distinct by input hash."
            .into()
    }
    fn assumptions(&self) -> Vec<String> {
        vec!["the comment-shift comparison is made only when both loads succeed with structurally equal data (layout neutrality itself is C03's subject)".into()]
    }
    fn streams(&self, tier: Tier) -> Vec<StreamSpec> {
        plan(tier).streams()
    }
    fn run_block(&self, ctx: &mut Ctx, stream: &str, block: u64) {
        plan(ctx.tier).run_block(ctx, stream, block, &|info, s| check_input(info, s));
    }
    fn replay(&self, ctx: &mut Ctx, case: &Value) -> CheckResult {
        let s = case_text(case);
        ctx.eval(&|| text_case(&s), |info| check_input(info, &s))
    }
}
