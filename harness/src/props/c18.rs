//! C18 — byte input decodes to the same documents, and decoding always ends.

use super::Property;
use crate::engine::{hex, unhex, CaseInfo, CheckResult, Ctx, StreamSpec, Tier};
use crate::gen::{exh_total, soup_strategy};
use crate::{ensure, fail};
use proptest::prelude::*;
use saphyr::{LoadableYamlNode, YAMLDecodingTrap, Yaml, YamlDecoder};
use serde_json::{json, Value};
use std::borrow::Cow;
use std::ops::ControlFlow;
use std::sync::atomic::{AtomicUsize, Ordering};

pub struct C18P;
pub static C18: C18P = C18P;

static CALLS: AtomicUsize = AtomicUsize::new(0);
/// what the continuing callback was handed: (length of `input_at_malformation`, malformation_length)
static SEEN: std::sync::Mutex<Vec<(usize, u8)>> = std::sync::Mutex::new(Vec::new());

fn cb_continue(len: u8, _: u8, at: &[u8], out: &mut String) -> ControlFlow<Cow<'static, str>> {
    CALLS.fetch_add(1, Ordering::SeqCst);
    SEEN.lock().unwrap().push((at.len(), len));
    out.push('?');
    ControlFlow::Continue(())
}
fn cb_break_msg(_: u8, _: u8, _: &[u8], _: &mut String) -> ControlFlow<Cow<'static, str>> {
    CALLS.fetch_add(1, Ordering::SeqCst);
    ControlFlow::Break(Cow::Borrowed("custom decode failure"))
}
fn cb_break_empty(_: u8, _: u8, _: &[u8], _: &mut String) -> ControlFlow<Cow<'static, str>> {
    CALLS.fetch_add(1, Ordering::SeqCst);
    ControlFlow::Break(Cow::Borrowed(""))
}

#[derive(Clone, Copy, PartialEq, Eq, Debug, Hash)]
pub enum Trap {
    Strict,
    Ignore,
    Replace,
    CallContinue,
    CallBreakMsg,
    CallBreakEmpty,
}

pub const TRAPS: [Trap; 6] = [Trap::Strict, Trap::Ignore, Trap::Replace, Trap::CallContinue, Trap::CallBreakMsg, Trap::CallBreakEmpty];

impl Trap {
    fn to_lib(self) -> YAMLDecodingTrap {
        match self {
            Trap::Strict => YAMLDecodingTrap::Strict,
            Trap::Ignore => YAMLDecodingTrap::Ignore,
            Trap::Replace => YAMLDecodingTrap::Replace,
            Trap::CallContinue => YAMLDecodingTrap::Call(cb_continue),
            Trap::CallBreakMsg => YAMLDecodingTrap::Call(cb_break_msg),
            Trap::CallBreakEmpty => YAMLDecodingTrap::Call(cb_break_empty),
        }
    }
    pub fn name(self) -> &'static str {
        match self {
            Trap::Strict => "strict",
            Trap::Ignore => "ignore",
            Trap::Replace => "replace",
            Trap::CallContinue => "call-continue",
            Trap::CallBreakMsg => "call-break-msg",
            Trap::CallBreakEmpty => "call-break-empty",
        }
    }
    pub fn parse(s: &str) -> Trap {
        *TRAPS.iter().find(|t| t.name() == s).unwrap_or(&Trap::Strict)
    }
}

/// Outcome of decode() in a comparable form.
#[derive(Clone, Debug, PartialEq)]
pub enum Dec {
    Docs(String),
    Scan(String),
    Decode(String),
    Io(String),
}

fn run_decode(bytes: &[u8], trap: Trap) -> (Dec, usize) {
    CALLS.store(0, Ordering::SeqCst);
    SEEN.lock().unwrap().clear();
    let mut d = YamlDecoder::read(bytes);
    d.encoding_trap(trap.to_lib());
    let r = d.decode();
    let calls = CALLS.load(Ordering::SeqCst);
    let dec = match r {
        Ok(docs) => Dec::Docs(format!("{docs:?}")),
        Err(e) => {
            let dbg = format!("{e:?}");
            if dbg.starts_with("Decode(") {
                Dec::Decode(e.to_string())
            } else if dbg.starts_with("Scan(") {
                Dec::Scan(e.to_string())
            } else {
                Dec::Io(e.to_string())
            }
        }
    };
    (dec, calls)
}

fn load_text(text: &str) -> Dec {
    match Yaml::load_from_str(text) {
        Ok(docs) => Dec::Docs(format!("{docs:?}")),
        Err(e) => Dec::Scan(e.to_string()),
    }
}

#[derive(Clone, Copy, PartialEq, Eq, Debug, Hash)]
pub enum Enc {
    Utf8,
    Utf8Bom,
    Utf16Le,
    Utf16LeBom,
    Utf16Be,
    Utf16BeBom,
}

pub const ENCS: [Enc; 6] = [Enc::Utf8, Enc::Utf8Bom, Enc::Utf16Le, Enc::Utf16LeBom, Enc::Utf16Be, Enc::Utf16BeBom];

/// encode with std only (`str::as_bytes`, `encode_utf16`)
pub fn encode(text: &str, enc: Enc) -> Vec<u8> {
    let mut out = vec![];
    match enc {
        Enc::Utf8 => out.extend_from_slice(text.as_bytes()),
        Enc::Utf8Bom => {
            out.extend_from_slice(&[0xEF, 0xBB, 0xBF]);
            out.extend_from_slice(text.as_bytes());
        }
        Enc::Utf16Le | Enc::Utf16LeBom => {
            if enc == Enc::Utf16LeBom {
                out.extend_from_slice(&[0xFF, 0xFE]);
            }
            for u in text.encode_utf16() {
                out.extend_from_slice(&u.to_le_bytes());
            }
        }
        Enc::Utf16Be | Enc::Utf16BeBom => {
            if enc == Enc::Utf16BeBom {
                out.extend_from_slice(&[0xFE, 0xFF]);
            }
            for u in text.encode_utf16() {
                out.extend_from_slice(&u.to_be_bytes());
            }
        }
    }
    out
}

/// Part (a): a text starting with ASCII (non-NUL) or a BOM, in one encoding.
pub fn check_text(info: &mut CaseInfo, text: &str, enc: Enc, trap: Trap) -> CheckResult {
    let bytes = encode(text, enc);
    let expected = load_text(text);
    let (got, calls) = run_decode(&bytes, trap);
    if got != expected {
        fail!("decode-differs", "{:?} encoding of {text:?} under trap {}: decode() gives {got:?}, load_from_str gives {expected:?}", enc, trap.name());
    }
    ensure!(calls == 0, "callback-on-wellformed", "{:?} encoding of {text:?}: the trap callback ran {calls} times on well-formed input", enc);
    if enc != Enc::Utf8 && !text.is_ascii() {
        info.nontrivial(&(text, enc, trap));
    }
    info.class(match enc {
        Enc::Utf8 | Enc::Utf8Bom => "utf-8",
        _ => "utf-16",
    });
    Ok(())
}

/// Which encoding the documented detection selects, and whether the payload is well-formed in it
/// (computed with std only). Returns (payload text if well-formed).
fn reference_decode(bytes: &[u8]) -> Option<String> {
    let utf16 = |b: &[u8], le: bool| -> Option<String> {
        if b.len() % 2 != 0 {
            return None;
        }
        let units: Vec<u16> = b.chunks(2).map(|c| if le { u16::from_le_bytes([c[0], c[1]]) } else { u16::from_be_bytes([c[0], c[1]]) }).collect();
        char::decode_utf16(units).collect::<Result<String, _>>().ok()
    };
    if bytes.starts_with(&[0xEF, 0xBB, 0xBF]) {
        return std::str::from_utf8(&bytes[3..]).ok().map(|s| s.to_string());
    }
    if bytes.starts_with(&[0xFF, 0xFE]) {
        return utf16(&bytes[2..], true);
    }
    if bytes.starts_with(&[0xFE, 0xFF]) {
        return utf16(&bytes[2..], false);
    }
    if bytes.len() > 1 && bytes[0] != bytes[1] {
        if bytes[0] == 0 {
            return utf16(bytes, false);
        } else if bytes[1] == 0 {
            return utf16(bytes, true);
        }
    }
    std::str::from_utf8(bytes).ok().map(|s| s.to_string())
}

/// Part (b): arbitrary bytes. The call returns (observed by the worker watchdog); the trap modes
/// behave as configured.
pub fn check_bytes(info: &mut CaseInfo, bytes: &[u8], trap: Trap) -> CheckResult {
    let (got, calls) = run_decode(bytes, trap);
    let reference = reference_decode(bytes);
    let malformed = reference.is_none();
    ensure!(!matches!(got, Dec::Io(_)), "io-error", "decode() of an in-memory slice returned an IO error: {got:?}");
    match trap {
        Trap::Strict => {
            if malformed {
                ensure!(matches!(got, Dec::Decode(_)), "strict-accepts-malformed", "bytes {} are malformed but strict decode() gives {got:?}", hex(bytes));
            }
        }
        Trap::Ignore | Trap::Replace => {
            ensure!(!matches!(got, Dec::Decode(_)), "lenient-trap-errors", "trap {} must continue, decode() gives {got:?} for {}", trap.name(), hex(bytes));
        }
        Trap::CallContinue => {
            ensure!(!matches!(got, Dec::Decode(_)), "lenient-trap-errors", "a continuing callback must not produce a decode error: {got:?} for {}", hex(bytes));
            ensure!((calls > 0) == malformed, "callback-count", "bytes {} malformed={malformed} but the callback ran {calls} times", hex(bytes));
            // the callback is handed the input *at the malformation*: successive calls move forward
            // through the input, each sequence is 1..4 bytes inside it, and (UTF-8 input) what is
            // left when the reported sequences are cut out is well-formed
            let seen = SEEN.lock().unwrap().clone();
            let mut last_start: Option<usize> = None;
            let mut cut = vec![false; bytes.len()];
            for (rest, len) in &seen {
                ensure!(*rest <= bytes.len() && *len >= 1 && (*len as usize) <= *rest, "callback-arguments", "callback got a slice of {rest} bytes with malformation_length {len} for input {}", hex(bytes));
                let start = bytes.len() - rest;
                ensure!(last_start.map(|l| start > l).unwrap_or(true), "callback-arguments", "callback slices do not move forward through the input ({last_start:?} then {start}) for {}", hex(bytes));
                last_start = Some(start);
                for c in cut.iter_mut().skip(start).take(*len as usize) {
                    *c = true;
                }
            }
            let utf8 = !(bytes.starts_with(&[0xFF, 0xFE]) || bytes.starts_with(&[0xFE, 0xFF]) || (bytes.len() > 1 && bytes[0] != bytes[1] && (bytes[0] == 0 || bytes[1] == 0)));
            if utf8 && malformed {
                let body = if bytes.starts_with(&[0xEF, 0xBB, 0xBF]) { 3 } else { 0 };
                let rest: Vec<u8> = bytes.iter().enumerate().skip(body).filter(|(i, _)| !cut[*i]).map(|(_, b)| *b).collect();
                ensure!(std::str::from_utf8(&rest).is_ok(), "callback-arguments", "with the sequences reported to the callback removed, the input {} is still not UTF-8", hex(bytes));
            }
        }
        Trap::CallBreakMsg => {
            if malformed {
                ensure!(got == Dec::Decode("custom decode failure".into()), "callback-break", "callback broke with a message, decode() gives {got:?} for {}", hex(bytes));
                ensure!(calls == 1, "callback-count", "breaking callback ran {calls} times for {}", hex(bytes));
            }
        }
        Trap::CallBreakEmpty => {
            if malformed {
                ensure!(matches!(&got, Dec::Decode(m) if m.starts_with("Invalid character sequence at")), "callback-break", "callback broke without message, decode() gives {got:?} for {}", hex(bytes));
            }
        }
    }
    if let Some(text) = &reference {
        // well-formed input: every trap mode must decode to the same text as std does
        ensure!(!matches!(got, Dec::Decode(_)), "wellformed-rejected", "bytes {} are well-formed ({text:?}) but decode() gives {got:?}", hex(bytes));
        let expected = load_text(text);
        ensure!(got == expected, "decode-differs", "bytes {} decode (std) to {text:?}: decode() gives {got:?}, load_from_str gives {expected:?}", hex(bytes));
        ensure!(calls == 0, "callback-on-wellformed", "bytes {}: callback ran {calls} times on well-formed input", hex(bytes));
    }
    if malformed {
        info.nontrivial(&(bytes, trap));
        info.class("malformed");
    } else {
        info.class("wellformed");
    }
    Ok(())
}

pub const BYTE_ALPHA: [u8; 10] = [0x00, 0x0A, 0x20, 0x2D, 0x41, 0x80, 0xC3, 0xE4, 0xFE, 0xFF];

fn bytes_of_index(mut idx: u64, maxlen: u32) -> Vec<u8> {
    let n = BYTE_ALPHA.len() as u64;
    let mut len = 0u32;
    while len <= maxlen && idx >= n.pow(len) {
        idx -= n.pow(len);
        len += 1;
    }
    let mut v = vec![0u8; len as usize];
    for d in v.iter_mut().rev() {
        *d = BYTE_ALPHA[(idx % n) as usize];
        idx /= n;
    }
    v
}

// ---- generators --------------------------------------------------------------------------------

/// texts that start with an ASCII (non-NUL) character or a BOM and contain no NUL
pub fn text_strategy() -> impl Strategy<Value = String> {
    let body = prop_oneof![
        4 => soup_strategy().prop_map(|v| v.concat()),
        2 => "\\PC{0,16}",
        2 => proptest::collection::vec(proptest::sample::select(vec!["a", "é", "中", "😀", "𝄞", " ", "\n", "- ", ": ", "\u{ffff}", "\u{d7ff}", "\u{e000}", "\u{10ffff}", "\u{feff}"]), 0..16).prop_map(|v| v.concat()),
        // long and expanding texts (UTF-16 -> UTF-8 grows): lengths up to ~4k
        2 => (proptest::sample::select(vec!["中", "é", "a", "😀", "k: 中\n", "- é\n", "\"中中\" "]), 0usize..1400).prop_map(|(u, n)| u.repeat(n)),
        1 => (1usize..12, proptest::sample::select(vec!["中", "é", "😀"])).prop_map(|(n, u)| u.repeat(n)),
        // structured texts the decoder's loader (the iterator back-end) is sensitive to: block
        // scalars under indentation on both sides of its 16-character window, golden documents
        1 => crate::gen::deep_block_strategy().prop_map(|d| crate::gen::render_deep_block(&d)),
        1 => proptest::sample::select(crate::gen::GOLDEN).prop_map(|g| g.to_string()),
        // line-structured YAML (with and without a final line break) and mutated golden documents
        3 => (crate::gen::lines_strategy(), any::<bool>()).prop_map(|(l, fb)| crate::gen::render_lines(&l, fb)),
        2 => crate::gen::mut_strategy(crate::gen::GOLDEN.len()).prop_map(|(i, j, ops)| crate::gen::apply_mutations(crate::gen::GOLDEN[i], crate::gen::GOLDEN[j], &ops)),
    ];
    // a text that itself starts with U+FEFF is the shape of known finding F21 (<= 5 % of cases)
    let prefix = prop_oneof![
        19 => proptest::sample::select(vec!["a", "-", "#", "\"", " ", "\n", "[", "k", "\t", "\u{1}", "\u{7f}"]),
        1 => proptest::sample::select(vec!["\u{feff}", "\u{feff}a"]),
    ];
    (prefix, body).prop_map(|(p, b)| format!("{p}{b}").replace('\0', ""))
}

fn garbled_strategy() -> impl Strategy<Value = Vec<u8>> {
    prop_oneof![
        2 => proptest::collection::vec(any::<u8>(), 0..24),
        2 => proptest::collection::vec(proptest::sample::select(BYTE_ALPHA.to_vec()), 0..12),
        // a valid encoding, truncated and / or with flipped bits
        4 => (text_strategy(), 0usize..6, any::<u16>(), proptest::collection::vec((any::<u16>(), 0u8..8), 0..3)).prop_map(|(t, e, cut, flips)| {
            let mut b = encode(&t, ENCS[e]);
            if !b.is_empty() {
                let keep = ((cut as usize) * (b.len() + 1)) >> 16;
                if cut % 3 != 0 {
                    b.truncate(keep.max(1));
                }
                for (pos, bit) in flips {
                    let i = ((pos as usize) * b.len()) >> 16;
                    if i < b.len() {
                        b[i] ^= 1 << bit;
                    }
                }
            }
            b
        }),
    ]
}

fn exh_len(tier: Tier) -> u32 {
    tier.pick(5, 6)
}
const EXH_BLOCK: u64 = 8000;
const RAND_BLOCK: u64 = 5000;
fn text_cases(tier: Tier) -> u64 {
    tier.pick(240_000, 1_500_000)
}
fn garbled_cases(tier: Tier) -> u64 {
    tier.pick(240_000, 1_500_000)
}

impl Property for C18P {
    fn id(&self) -> &'static str {
        "C18"
    }
    fn rule(&self) -> String {
        "(a) proptest texts starting with an ASCII character or a BOM (token soups, Unicode mixes incl. astral and boundary code points, \
         long UTF-16-expanding texts up to ~4k chars, block scalars under indentation 0..140, line-structured soups, golden documents and their mutations) encoded with std (as_bytes / encode_utf16) as UTF-8, UTF-8+BOM, UTF-16LE/BE with \
         and without BOM, decoded under a generated trap mode: decode() must equal Yaml::load_from_str(text) (documents or scan error), \
         callback never invoked. (b) every byte string up to the stated length over {00,0A,20,2D,41,80,C3,E4,FE,FF} x 6 trap modes \
         (strict, ignore, replace, callback continue / break with message / break with empty message), plus random, truncated and \
         bit-flipped encodings: the call returns (block watchdog; a non-terminating case is isolated and reported), strict + malformed => \
         decode error, ignore / replace / continuing callback never a decode error, the callback's input slices move forward and (UTF-8) cover exactly the malformed sequences, breaking callback => its message, well-formed => same \
         documents as std decoding + load_from_str. Malformedness is decided with std (from_utf8 / decode_utf16) after the documented \
         BOM / NUL-pattern detection. Non-trivial = non-UTF-8 encoding with a non-ASCII char, or malformed bytes; distinct by (bytes, trap)."
            .into()
    }
    fn assumptions(&self) -> Vec<String> {
        vec![
            "texts contain no NUL; 'starts with ASCII' means first char in U+0001..U+007F (I11)".into(),
            "std's UTF-8 / UTF-16 validation defines well-formedness; encoding_rs is not consulted by the oracle".into(),
        ]
    }
    fn streams(&self, tier: Tier) -> Vec<StreamSpec> {
        let n = exh_total(10, exh_len(tier));
        vec![
            StreamSpec::new("exh-bytes", n.div_ceil(EXH_BLOCK), true, &format!("every byte string of length <= {} over 10 byte values ({n}) x 6 trap modes", exh_len(tier))),
            StreamSpec::new("texts", text_cases(tier).div_ceil(RAND_BLOCK), false, &format!("{} texts x generated (encoding, trap)", text_cases(tier))),
            StreamSpec::new("garbled", garbled_cases(tier).div_ceil(RAND_BLOCK), false, &format!("{} random / truncated / bit-flipped byte strings x generated trap", garbled_cases(tier))),
        ]
    }
    fn run_block(&self, ctx: &mut Ctx, stream: &str, block: u64) {
        match stream {
            "exh-bytes" => {
                let lo = block * EXH_BLOCK;
                let total = exh_total(10, exh_len(ctx.tier));
                for idx in lo..(lo + EXH_BLOCK).min(total) {
                    let b = bytes_of_index(idx, exh_len(ctx.tier));
                    for trap in TRAPS {
                        let json = || json!({"bytes_hex": hex(&b), "trap": trap.name()});
                        if let Err(f) = ctx.eval(&json, |info| check_bytes(info, &b, trap)) {
                            ctx.record(json(), &f);
                        }
                    }
                }
            }
            "texts" => {
                let total = text_cases(ctx.tier);
                let n = (total - (block * RAND_BLOCK).min(total)).min(RAND_BLOCK) as u32;
                crate::engine::run_proptest(
                    ctx,
                    (text_strategy(), 0usize..6, 0usize..6),
                    n,
                    |(t, e, tr)| json!({"text": t, "text_hex": hex(t.as_bytes()), "encoding": *e, "trap": TRAPS[*tr].name()}),
                    |ctx, (t, e, tr)| {
                        ctx.eval(&|| json!({"text": t, "text_hex": hex(t.as_bytes()), "encoding": *e, "trap": TRAPS[*tr].name()}), |info| {
                            check_text(info, t, ENCS[*e], TRAPS[*tr])
                        })
                    },
                );
            }
            _ => {
                let total = garbled_cases(ctx.tier);
                let n = (total - (block * RAND_BLOCK).min(total)).min(RAND_BLOCK) as u32;
                crate::engine::run_proptest(
                    ctx,
                    (garbled_strategy(), 0usize..6),
                    n,
                    |(b, tr)| json!({"bytes_hex": hex(b), "trap": TRAPS[*tr].name()}),
                    |ctx, (b, tr)| ctx.eval(&|| json!({"bytes_hex": hex(b), "trap": TRAPS[*tr].name()}), |info| check_bytes(info, b, TRAPS[*tr])),
                );
            }
        }
    }
    fn replay(&self, ctx: &mut Ctx, case: &Value) -> CheckResult {
        let trap = Trap::parse(case["trap"].as_str().unwrap_or("strict"));
        if let Some(h) = case.get("bytes_hex").and_then(|x| x.as_str()) {
            let b = unhex(h);
            return ctx.eval(&|| case.clone(), |info| check_bytes(info, &b, trap));
        }
        let text = case["text_hex"].as_str().and_then(|h| String::from_utf8(unhex(h)).ok()).unwrap_or_else(|| case["text"].as_str().unwrap_or("").to_string());
        let enc = ENCS[case["encoding"].as_u64().unwrap_or(0) as usize % 6];
        ctx.eval(&|| case.clone(), |info| check_text(info, &text, enc, trap))
    }
    fn hang_is_violation(&self) -> bool {
        true
    }
    fn block_timeout_s(&self, _tier: Tier) -> u64 {
        60
    }
}
