//! `verif` — master / worker / replay entry points (DESIGN §2.3–2.6).

use serde_json::{json, Value};
use std::collections::{BTreeMap, HashSet};
use std::io::{Read, Write};
use std::os::unix::process::ExitStatusExt;
use std::process::{Child, Command, Stdio};
use std::time::{Duration, Instant};
use verif::engine::{install_quiet_panic_hook, Ctx, Fail, Known, Tier};
use verif::gen::root;
use verif::props::{self, Property};

fn arg_after(args: &[String], flag: &str) -> Option<String> {
    args.iter().position(|a| a == flag).and_then(|i| args.get(i + 1).cloned())
}

fn env_u64(name: &str, default: u64) -> u64 {
    std::env::var(name).ok().and_then(|v| v.parse().ok()).unwrap_or(default)
}

fn main() {
    let args: Vec<String> = std::env::args().collect();
    let cmd = args.get(1).map(|s| s.as_str()).unwrap_or("");
    let code = match cmd {
        "check" => master(&args),
        "worker" => worker(&args),
        "replay" => replay_file(&args),
        "replay-case" => replay_case(&args),
        "events" => {
            let text = if let Some(h) = arg_after(&args, "--hex") { String::from_utf8(verif::engine::unhex(&h)).unwrap() } else { args[2].replace("\\n", "\n").replace("\\t", "\t").replace("\\r", "\r") };
            install_quiet_panic_hook();
            for b in [verif::drive::Backend::Str, verif::drive::Backend::Buffered] {
                let o = verif::drive::parse_with(b, &text);
                println!("--- {}", b.name());
                for (e, s) in &o.events {
                    println!("{:<40} {}:{}:{} .. {}:{}:{}", e.short(), s.start.index, s.start.line, s.start.col, s.end.index, s.end.line, s.end.col);
                }
                if let Some(e) = &o.error {
                    println!("ERROR {}", e.display);
                }
            }
            0
        }
        "survey" => survey(&args),
        "fuzz-seeds" => fuzz_seeds(&args),
        "fuzz-replay" => fuzz_replay(&args),
        "fuzz-report" => fuzz_report(&args),
        "fuzzable" => {
            let ok = verif::fuzz::FUZZABLE.contains(&args.get(2).map(|s| s.as_str()).unwrap_or(""));
            if ok { 0 } else { 1 }
        }
        "render" => {
            render_debug(&args);
            0
        }
        "render-old" => {
            // debug: render N random streams
            let n: u64 = args.get(2).and_then(|s| s.parse().ok()).unwrap_or(5);
            for i in 0..n {
                let (t, l, r) = verif::engine::sample_one(&verif::props::c03::case_strategy(), i);
                let s = verif::model::gen_stream(&t, &verif::model::GenCfg::default());
                let (text, _) = verif::model::render(&s, &l, r);
                println!("=== #{i} rich={r}\n{text}<<<");
                let o = verif::drive::parse_str(&text);
                println!("{}", o.dump());
            }
            0
        }
        "nest" => verif::props::c11::child_main(&args),
        "list" => {
            for p in props::all() {
                println!("{}", p.id());
            }
            0
        }
        _ => {
            eprintln!("usage: verif check <ID> [--tier quick|thorough] | replay <file> | list");
            2
        }
    };
    std::process::exit(code);
}

fn prop_or_die(id: &str) -> &'static dyn Property {
    props::get(id).unwrap_or_else(|| {
        eprintln!("unknown property {id}");
        std::process::exit(2)
    })
}

// ------------------------------------------------------------------------------------------------
// worker
// ------------------------------------------------------------------------------------------------

fn worker(args: &[String]) -> i32 {
    let prop = prop_or_die(&args[2]);
    let tier = Tier::parse(&arg_after(args, "--tier").unwrap_or_default());
    let stream = arg_after(args, "--stream").expect("--stream");
    let block: u64 = arg_after(args, "--block").expect("--block").parse().unwrap();
    let out = arg_after(args, "--out").expect("--out");
    let seed = env_u64("VERIF_SEED", 0);
    install_quiet_panic_hook();
    let mut ctx = Ctx::new(prop.id(), tier, seed, &stream, block, Known::load(&root()));
    if let Some(t) = arg_after(args, "--trace") {
        ctx.trace = Some(std::fs::File::create(t).expect("trace file"));
    }
    prop.run_block(&mut ctx, &stream, block);
    // hashes of distinct non-trivial cases, binary
    let mut hb = Vec::with_capacity(ctx.stats.nontrivial.len() * 8);
    for h in &ctx.stats.nontrivial {
        hb.extend_from_slice(&h.to_le_bytes());
    }
    std::fs::write(format!("{out}.hashes"), hb).expect("write hashes");
    std::fs::write(&out, serde_json::to_vec(&ctx.to_json()).unwrap()).expect("write block result");
    0
}

// ------------------------------------------------------------------------------------------------
// replay
// ------------------------------------------------------------------------------------------------

fn replay_value(prop: &'static dyn Property, case: &Value, strict: bool) -> Result<(), Fail> {
    install_quiet_panic_hook();
    let mut ctx = Ctx::new(prop.id(), Tier::Quick, 0, "replay", 0, Known::load(&root()));
    ctx.strict = strict;
    prop.replay(&mut ctx, case)
}

/// `verif replay <file>`: re-evaluate the stored concrete case without proptest / libFuzzer.
fn replay_file(args: &[String]) -> i32 {
    let path = args.get(2).expect("replay <file>");
    let v: Value = serde_json::from_str(&std::fs::read_to_string(path).expect("read replay file")).expect("replay JSON");
    let id = v["property"].as_str().expect("property").to_string();
    let prop = prop_or_die(&id);
    match replay_value(prop, &v["case"], true) {
        Ok(()) => {
            println!("replay: property {id} holds on this case");
            0
        }
        Err(f) => {
            println!("replay: {id} fails [{}]: {}", f.category, f.detail);
            println!("VIOLATION property={id} replay={path}");
            1
        }
    }
}

/// `verif replay-case <ID> <casefile>`: isolated evaluation used by the master (strict).
fn replay_case(args: &[String]) -> i32 {
    let prop = prop_or_die(&args[2]);
    let v: Value = serde_json::from_str(&std::fs::read_to_string(&args[3]).expect("case file")).expect("case JSON");
    match replay_value(prop, &v, true) {
        Ok(()) => 0,
        Err(f) => {
            println!("{}", json!({"category": f.category, "detail": f.detail}));
            1
        }
    }
}

// ------------------------------------------------------------------------------------------------
// master
// ------------------------------------------------------------------------------------------------

struct Job {
    stream: String,
    block: u64,
}

struct Running {
    child: Child,
    start: Instant,
    job: usize,
    out: String,
}

enum Ended {
    Ok,
    Exit(i32),
    Signal(i32),
    Timeout,
}

fn wait_timeout(child: &mut Child, limit: Duration) -> Ended {
    let start = Instant::now();
    loop {
        match child.try_wait() {
            Ok(Some(st)) => {
                return if st.success() {
                    Ended::Ok
                } else if let Some(s) = st.signal() {
                    Ended::Signal(s)
                } else {
                    Ended::Exit(st.code().unwrap_or(-1))
                }
            }
            Ok(None) => {
                if start.elapsed() > limit {
                    let _ = child.kill();
                    let _ = child.wait();
                    return Ended::Timeout;
                }
                std::thread::sleep(Duration::from_millis(5));
            }
            Err(_) => return Ended::Exit(-1),
        }
    }
}

fn exe() -> std::path::PathBuf {
    std::env::current_exe().expect("current_exe")
}

fn spawn_worker(id: &str, tier: Tier, job: &Job, out: &str, trace: Option<&str>) -> Child {
    let mut c = Command::new(exe());
    c.arg("worker").arg(id).arg("--tier").arg(tier.name()).arg("--stream").arg(&job.stream).arg("--block").arg(job.block.to_string()).arg("--out").arg(out);
    if let Some(t) = trace {
        c.arg("--trace").arg(t);
    }
    c.stdin(Stdio::null()).stdout(Stdio::null()).stderr(Stdio::null());
    c.spawn().expect("spawn worker")
}

#[derive(Default)]
struct Agg {
    evaluations: u64,
    nontrivial: HashSet<u64>,
    classes: BTreeMap<String, u64>,
    known_hits: BTreeMap<String, u64>,
    excluded: u64,
    maxima: BTreeMap<String, f64>,
    per_stream: BTreeMap<String, (u64, u64, Vec<Value>)>, // evaluations, nontrivial(block-sum), samples
    failures: Vec<Value>,
}

impl Agg {
    fn absorb(&mut self, v: &Value, hashes: &[u8]) {
        let ev = v["evaluations"].as_u64().unwrap_or(0);
        self.evaluations += ev;
        for c in hashes.chunks_exact(8) {
            self.nontrivial.insert(u64::from_le_bytes(c.try_into().unwrap()));
        }
        if let Some(m) = v["classes"].as_object() {
            for (k, n) in m {
                *self.classes.entry(k.clone()).or_insert(0) += n.as_u64().unwrap_or(0);
            }
        }
        if let Some(m) = v["known_hits"].as_object() {
            for (k, n) in m {
                *self.known_hits.entry(k.clone()).or_insert(0) += n.as_u64().unwrap_or(0);
            }
        }
        self.excluded += v["excluded"].as_u64().unwrap_or(0);
        if let Some(m) = v["maxima"].as_object() {
            for (k, n) in m {
                let x = n.as_f64().unwrap_or(0.0);
                let e = self.maxima.entry(k.clone()).or_insert(x);
                if x > *e {
                    *e = x;
                }
            }
        }
        let stream = v["stream"].as_str().unwrap_or("").to_string();
        let e = self.per_stream.entry(stream).or_insert((0, 0, vec![]));
        e.0 += ev;
        e.1 += v["nontrivial_count"].as_u64().unwrap_or(0);
        if let Some(s) = v["samples"].as_array() {
            for x in s {
                if e.2.len() < 3 {
                    e.2.push(x.clone());
                }
            }
        }
        if let Some(f) = v["failures"].as_array() {
            self.failures.extend(f.iter().cloned());
        }
    }
}

fn last_line(path: &str) -> Option<String> {
    let mut s = String::new();
    std::fs::File::open(path).ok()?.read_to_string(&mut s).ok()?;
    s.lines().filter(|l| !l.trim().is_empty()).last().map(|l| l.to_string())
}

/// Evaluate one case alone in a child under a time limit.
/// Returns Ok(None) = holds, Ok(Some(fail)) = property failure / abort / hang, with category.
fn isolated(id: &str, case: &Value, work: &str, tag: &str, limit_s: u64) -> Option<Fail> {
    let path = format!("{work}/case-{tag}.json");
    std::fs::write(&path, serde_json::to_vec(case).unwrap()).unwrap();
    let mut child = Command::new(exe())
        .arg("replay-case")
        .arg(id)
        .arg(&path)
        .stdin(Stdio::null())
        .stdout(Stdio::piped())
        .stderr(Stdio::null())
        .spawn()
        .expect("spawn replay-case");
    let mut stdout = child.stdout.take().unwrap();
    let reader = std::thread::spawn(move || {
        let mut s = String::new();
        let _ = stdout.read_to_string(&mut s);
        s
    });
    let ended = wait_timeout(&mut child, Duration::from_secs(limit_s));
    let out = reader.join().unwrap_or_default();
    match ended {
        Ended::Ok => None,
        Ended::Exit(1) => {
            let v: Value = serde_json::from_str(out.lines().last().unwrap_or("{}")).unwrap_or(json!({}));
            Some(Fail::new(v["category"].as_str().unwrap_or("failure"), v["detail"].as_str().unwrap_or("")))
        }
        Ended::Exit(c) => Some(Fail::new("abort", format!("isolated case exited with status {c}"))),
        Ended::Signal(s) => Some(Fail::new("abort", format!("isolated case killed by signal {s} (stack overflow / abort)"))),
        Ended::Timeout => Some(Fail::new("hang", format!("isolated case did not finish within {limit_s} s"))),
    }
}

fn master(args: &[String]) -> i32 {
    let id = args.get(2).cloned().unwrap_or_default();
    let prop = prop_or_die(&id);
    let tier = Tier::parse(&arg_after(args, "--tier").or_else(|| std::env::var("VERIF_TIER").ok()).unwrap_or_default());
    let seed = env_u64("VERIF_SEED", 0);
    let njobs = env_u64("VERIF_JOBS", 16).max(1) as usize;
    let root = root();
    let known = Known::load(&root);
    let t0 = Instant::now();
    let work = format!("{root}/work/{id}-{}-{}", tier.name(), std::process::id());
    let _ = std::fs::remove_dir_all(&work);
    std::fs::create_dir_all(&work).expect("work dir");

    // replay files of earlier runs of this property are stale
    if let Ok(rd) = std::fs::read_dir(format!("{root}/replays")) {
        for e in rd.flatten() {
            if e.file_name().to_string_lossy().starts_with(&format!("{id}-")) {
                let _ = std::fs::remove_file(e.path());
            }
        }
    }
    let streams = prop.streams(tier);
    let mut jobs = vec![];
    for s in &streams {
        for b in 0..s.blocks {
            jobs.push(Job { stream: s.name.clone(), block: b });
        }
    }
    let limit = Duration::from_secs(prop.block_timeout_s(tier));
    let mut agg = Agg::default();
    let mut inconclusive: Vec<String> = vec![];
    let mut special: Vec<(Value, Fail, String)> = vec![]; // abort / hang culprits: case, fail, stream
    let mut next = 0usize;
    let mut running: Vec<Running> = vec![];
    let mut broken: Vec<(usize, String)> = vec![];
    let mut skipped_blocks = 0usize;
    while next < jobs.len() || !running.is_empty() {
        if broken.len() >= 4 && next < jobs.len() {
            // a shallow defect is killing blocks: stop scheduling, the run is reported as partial
            skipped_blocks = jobs.len() - next;
            next = jobs.len();
        }
        while running.len() < njobs && next < jobs.len() {
            let out = format!("{work}/b{next}.json");
            let child = spawn_worker(&id, tier, &jobs[next], &out, None);
            running.push(Running { child, start: Instant::now(), job: next, out });
            next += 1;
        }
        let mut i = 0;
        let mut progressed = false;
        while i < running.len() {
            let r = &mut running[i];
            let done = match r.child.try_wait() {
                Ok(Some(st)) => Some(if st.success() {
                    None
                } else if let Some(s) = st.signal() {
                    Some(format!("killed by signal {s}"))
                } else {
                    Some(format!("exit status {}", st.code().unwrap_or(-1)))
                }),
                Ok(None) => {
                    if r.start.elapsed() > limit {
                        let _ = r.child.kill();
                        let _ = r.child.wait();
                        Some(Some(format!("block watchdog ({} s) expired", limit.as_secs())))
                    } else {
                        None
                    }
                }
                Err(e) => Some(Some(format!("wait error {e}"))),
            };
            if let Some(problem) = done {
                let r = running.swap_remove(i);
                progressed = true;
                match problem {
                    None => match std::fs::read(&r.out).ok().and_then(|b| serde_json::from_slice::<Value>(&b).ok()) {
                        Some(v) => {
                            let hashes = std::fs::read(format!("{}.hashes", r.out)).unwrap_or_default();
                            agg.absorb(&v, &hashes);
                            let _ = std::fs::remove_file(&r.out);
                            let _ = std::fs::remove_file(format!("{}.hashes", r.out));
                        }
                        None => broken.push((r.job, "worker exited 0 without a result file".into())),
                    },
                    Some(p) => broken.push((r.job, p)),
                }
            } else {
                i += 1;
            }
        }
        if !progressed {
            std::thread::sleep(Duration::from_millis(3));
        }
    }

    // blocks that died: trace-mode re-run, then the culprit alone. At most 4 are investigated
    // (concurrently); a shallow defect typically kills many blocks the same way.
    if broken.len() > 4 {
        eprintln!("note: {} blocks died; investigating the first 4", broken.len());
    }
    let uninvestigated = broken.len().saturating_sub(4);
    broken.truncate(4);
    let mut reruns = vec![];
    for (j, problem) in broken {
        let trace = format!("{work}/trace{j}.ndjson");
        let out = format!("{work}/t{j}.json");
        let child = spawn_worker(&id, tier, &jobs[j], &out, Some(&trace));
        reruns.push((j, problem, trace, out, child));
    }
    let mut culprits = vec![];
    for (j, problem, trace, out, mut child) in reruns {
        let job = &jobs[j];
        let ended = wait_timeout(&mut child, limit);
        if let Ended::Ok = ended {
            // did not reproduce: absorb the result of the re-run, note the instability
            if let Some(v) = std::fs::read(&out).ok().and_then(|b| serde_json::from_slice::<Value>(&b).ok()) {
                let hashes = std::fs::read(format!("{out}.hashes")).unwrap_or_default();
                agg.absorb(&v, &hashes);
                eprintln!("note: block {}#{} failed once ({problem}) and passed on re-run", job.stream, job.block);
                continue;
            }
        }
        let Some(line) = last_line(&trace) else {
            inconclusive.push(format!("block {}#{}: {problem}; no culprit case could be identified", job.stream, job.block));
            continue;
        };
        let case: Value = serde_json::from_str(&line).unwrap_or(json!({"raw": line}));
        let _ = std::fs::remove_file(&trace);
        culprits.push((j, problem, case));
    }
    let iso_limit = prop.block_timeout_s(tier).min(60);
    let handles: Vec<_> = culprits
        .into_iter()
        .map(|(j, problem, case)| {
            let (id, work) = (id.clone(), work.clone());
            std::thread::spawn(move || {
                let r = isolated(&id, &case, &work, &format!("culprit{j}"), iso_limit);
                (j, problem, case, r)
            })
        })
        .collect();
    for h in handles {
        let (j, problem, case, r) = h.join().expect("isolation thread");
        let job = &jobs[j];
        match r {
            None => inconclusive.push(format!("block {}#{}: {problem}, but the last traced case passes in isolation", job.stream, job.block)),
            Some(f) => special.push((case, f, job.stream.clone())),
        }
    }
    if uninvestigated > 0 && special.is_empty() {
        inconclusive.push(format!("{uninvestigated} further blocks died and were not investigated"));
    }

    // classify special failures
    let mut violations: Vec<Value> = vec![];
    for (case, f, stream) in special {
        if let Some(kid) = known.match_open(&id, &case, &f) {
            *agg.known_hits.entry(kid).or_insert(0) += 1;
            continue;
        }
        let is_violation = match f.category.as_str() {
            "hang" => prop.hang_is_violation(),
            "abort" => prop.abort_is_violation(),
            _ => true,
        };
        if is_violation {
            violations.push(json!({"stream": stream, "block": 0, "category": f.category, "detail": f.detail, "case": case}));
        } else {
            inconclusive.push(format!("{}: {} ({})", stream, f.category, f.detail));
        }
    }
    violations.extend(agg.failures.iter().cloned());

    // regression tier: every committed witness of this property that is not an open finding
    // (i.e. repaired defects and hand-kept regressions) must hold again
    let open_witnesses: HashSet<String> = known.open_for(&id).iter().map(|e| e.witness.clone()).collect();
    let mut regress = 0u64;
    let mut regress_jobs = vec![];
    if let Ok(rd) = std::fs::read_dir(format!("{root}/findings")) {
        let mut files: Vec<_> = rd.flatten().map(|e| e.path()).filter(|p| p.extension().map(|x| x == "json").unwrap_or(false)).collect();
        files.sort();
        for f in files {
            let rel = format!("findings/{}", f.file_name().unwrap().to_string_lossy());
            if open_witnesses.contains(&rel) {
                continue;
            }
            let Some(w) = std::fs::read_to_string(&f).ok().and_then(|t| serde_json::from_str::<Value>(&t).ok()) else { continue };
            if w["property"].as_str() != Some(id.as_str()) {
                continue;
            }
            regress += 1;
            let (id2, work2, n) = (id.clone(), work.clone(), regress);
            regress_jobs.push(std::thread::spawn(move || {
                let r = isolated(&id2, &w["case"], &work2, &format!("regress{n}"), iso_limit);
                (rel, w, r)
            }));
        }
    }
    for h in regress_jobs {
        let (rel, w, r) = h.join().expect("regress thread");
        if let Some(fl) = r {
            let is_violation = match fl.category.as_str() {
                "hang" => prop.hang_is_violation(),
                "abort" => prop.abort_is_violation(),
                _ => true,
            };
            if is_violation {
                violations.push(json!({"stream": format!("regress:{rel}"), "block": 0, "category": fl.category, "detail": fl.detail, "case": w["case"]}));
            } else {
                inconclusive.push(format!("regress {rel}: {} ({})", fl.category, fl.detail));
            }
        }
    }
    agg.evaluations += regress;

    // de-duplicate by category, keep a few
    let mut seen: BTreeMap<String, usize> = BTreeMap::new();
    let mut reported: Vec<Value> = vec![];
    for v in &violations {
        let c = v["category"].as_str().unwrap_or("").to_string();
        let n = seen.entry(c).or_insert(0);
        *n += 1;
        if *n <= 2 && reported.len() < 10 {
            reported.push(v.clone());
        }
    }

    // open known findings: replay the witnesses
    let mut known_lines = vec![];
    for e in known.open_for(&id) {
        let wpath = format!("{root}/{}", e.witness);
        let w: Option<Value> = std::fs::read_to_string(&wpath).ok().and_then(|t| serde_json::from_str(&t).ok());
        match w {
            None => inconclusive.push(format!("known finding {}: witness {} unreadable", e.id, e.witness)),
            Some(w) => match isolated(&id, &w["case"], &work, &format!("known-{}", e.id), iso_limit) {
                Some(_) => known_lines.push(format!("KNOWN-FINDING: property={id} {} {}", e.id, e.what)),
                None => eprintln!("note: known finding {} no longer reproduces on this tree (witness {})", e.id, e.witness),
            },
        }
    }

    // replay files + report
    std::fs::create_dir_all(format!("{root}/replays")).ok();
    let mut lines = vec![];
    for v in &reported {
        let h = verif::engine::hash64(&v["case"].to_string());
        let path = format!("{root}/replays/{id}-{:016x}.json", h);
        let rec = json!({
            "property": id, "stream": v["stream"], "block": v["block"], "seed": seed, "tier": tier.name(),
            "category": v["category"], "detail": v["detail"], "case": v["case"],
        });
        std::fs::write(&path, serde_json::to_string_pretty(&rec).unwrap()).expect("write replay");
        lines.push(format!("VIOLATION property={id} replay={path}"));
        let d: String = v["detail"].as_str().unwrap_or("").chars().take(400).collect();
        eprintln!("  [{}] {}", v["category"].as_str().unwrap_or(""), d);
    }

    // evidence
    let wall = t0.elapsed().as_secs_f64();
    let mut samples: Vec<Value> = vec![];
    let mut stream_rows = vec![];
    for s in &streams {
        let (ev, nt, smp) = agg.per_stream.get(&s.name).cloned().unwrap_or((0, 0, vec![]));
        stream_rows.push(json!({"name": s.name, "what": s.what, "blocks": s.blocks, "exhaustive": s.exhaustive, "evaluations": ev, "nontrivial_block_sum": nt}));
        for x in smp.into_iter().take(2) {
            if samples.len() < 12 {
                samples.push(json!({"stream": s.name, "case": x}));
            }
        }
    }
    let all_exh = !streams.is_empty() && streams.iter().all(|s| s.exhaustive);
    let evidence = json!({
        "property_id": id,
        "tier": tier.name(),
        "seed": seed,
        "level": "exploration",
        "coverage": {
            "evaluations": agg.evaluations,
            "distinct_nontrivial": agg.nontrivial.len(),
            "rule": prop.rule(),
            "samples": samples,
            "exhaustive": all_exh,
            "exhaustive_streams": streams.iter().filter(|s| s.exhaustive).map(|s| s.name.clone()).collect::<Vec<_>>(),
            "streams": stream_rows,
            "classes": agg.classes,
            "maxima": agg.maxima,
            "known_finding_hits": agg.known_hits,
            "excluded_by_construction": agg.excluded,
            "regression_witnesses_replayed": regress,
            "blocks_not_run_after_repeated_block_deaths": skipped_blocks,
            "inconclusive": inconclusive,
        },
        "assumptions": prop.assumptions(),
        "wall_s": (wall * 100.0).round() / 100.0,
        "violations": violations.len(),
    });
    std::fs::create_dir_all(format!("{root}/evidence")).ok();
    std::fs::write(format!("{root}/evidence/{id}.json"), serde_json::to_string_pretty(&evidence).unwrap()).expect("write evidence");
    let _ = std::fs::remove_dir_all(&work);

    for l in &known_lines {
        println!("{l}");
    }
    for l in &lines {
        println!("{l}");
    }
    let _ = std::io::stdout().flush();
    eprintln!(
        "{id} {}: {} evaluations, {} distinct non-trivial, {} violation(s), {} known-finding hit(s), {:.1} s",
        tier.name(),
        agg.evaluations,
        agg.nontrivial.len(),
        violations.len(),
        agg.known_hits.values().sum::<u64>(),
        wall
    );
    if !lines.is_empty() {
        1
    } else if !inconclusive.is_empty() {
        for m in &inconclusive {
            eprintln!("INCONCLUSIVE: {m}");
        }
        2
    } else {
        0
    }
}


/// Debug aid: run the exhaustive streams of a property in-process and tally *all* failures by
/// category (known findings are not filtered), with a few examples each.
fn survey(args: &[String]) -> i32 {
    let prop = prop_or_die(&args[2]);
    let tier = Tier::parse(&arg_after(args, "--tier").unwrap_or_default());
    let only = arg_after(args, "--stream");
    install_quiet_panic_hook();
    let mut tally: BTreeMap<String, (u64, Vec<String>)> = BTreeMap::new();
    for s in prop.streams(tier) {
        if let Some(o) = &only {
            if &s.name != o {
                continue;
            }
        } else if !s.exhaustive {
            continue;
        }
        for b in 0..s.blocks {
            let mut ctx = Ctx::new(prop.id(), tier, 0, &s.name, b, Known::default());
            ctx.max_failures = usize::MAX;
            ctx.per_category = usize::MAX;
            prop.run_block(&mut ctx, &s.name, b);
            for f in ctx.failures {
                let e = tally.entry(f.category.clone()).or_insert((0, vec![]));
                e.0 += 1;
                if e.1.len() < 12 {
                    e.1.push(format!("{} :: {}", f.case, f.detail.chars().take(200).collect::<String>()));
                }
            }
        }
    }
    for (c, (n, ex)) in tally {
        println!("== {c}: {n}");
        for e in ex {
            println!("   {e}");
        }
    }
    0
}


fn render_debug(args: &[String]) {
    if let Some(t) = arg_after(args, "--tree") {
        let l = arg_after(args, "--layout").unwrap_or_default();
        let rich = arg_after(args, "--rich").map(|r| r == "true").unwrap_or(true);
        let s = verif::model::gen_stream(&verif::engine::unhex(&t), &verif::model::GenCfg::default());
        println!("{s:#?}");
        let (text, _) = verif::model::render(&s, &verif::engine::unhex(&l), rich);
        println!("{text}<<<");
        for e in verif::model::expected_events(&s) {
            println!("  {}", e.short());
        }
        println!("{}", verif::drive::parse_str(&text).dump());
        return;
    }
    let n: u64 = args.get(2).and_then(|s| s.parse().ok()).unwrap_or(5);
    for i in 0..n {
        let (t, l, r) = verif::engine::sample_one(&verif::props::c03::case_strategy(), i);
        let s = verif::model::gen_stream(&t, &verif::model::GenCfg::default());
        let (text, _) = verif::model::render(&s, &l, r);
        println!("=== #{i} rich={r}\n{text}<<<");
        println!("{}", verif::drive::parse_str(&text).dump());
    }
}


/// `verif fuzz-seeds <ID> <dir>`: small valid seed inputs for the text-based targets (the
/// structured targets start from an empty corpus).
fn fuzz_seeds(args: &[String]) -> i32 {
    let id = &args[2];
    let dir = &args[3];
    std::fs::create_dir_all(dir).expect("seed dir");
    let text_props = ["C01", "C02", "C07", "C10", "C12", "C14", "C17", "C19"];
    let mut n = 0;
    if text_props.contains(&id.as_str()) {
        for (i, d) in verif::gen::seed_docs().iter().enumerate() {
            if d.len() <= 400 {
                std::fs::write(format!("{dir}/seed-{i:04}"), d.as_bytes()).ok();
                n += 1;
            }
        }
    } else {
        // a few random byte strings so that the pass-through decoders have material
        for i in 0..64u64 {
            let b = verif::engine::seed_bytes(i);
            std::fs::write(format!("{dir}/seed-{i:04}"), &b[..(8 + (i as usize % 24))]).ok();
            n += 1;
        }
    }
    eprintln!("{n} seed files written to {dir}");
    0
}

/// `verif fuzz-replay <ID> <artifact>`: decode a libFuzzer artifact into the property's case,
/// re-evaluate it without the fuzzer, write a replay file and print the VIOLATION line.
fn fuzz_replay(args: &[String]) -> i32 {
    let id = args[2].clone();
    let prop = prop_or_die(&id);
    let data = std::fs::read(&args[3]).expect("artifact");
    install_quiet_panic_hook();
    let root = root();
    let trace_path = format!("{root}/work/fuzz-replay-{}.ndjson", std::process::id());
    std::fs::create_dir_all(format!("{root}/work")).ok();
    let mut ctx = Ctx::new(prop.id(), Tier::Thorough, 0, "fuzz", 0, Known::load(&root));
    ctx.trace = Some(std::fs::File::create(&trace_path).expect("trace"));
    let r = verif::fuzz::fuzz_one(prop.id(), &mut ctx, &data);
    drop(ctx);
    let case: Value = last_line(&trace_path).and_then(|l| serde_json::from_str(&l).ok()).unwrap_or(json!({"fuzz_bytes_hex": verif::engine::hex(&data)}));
    let _ = std::fs::remove_file(&trace_path);
    match r {
        Some(Err(f)) => {
            let h = verif::engine::hash64(&case.to_string());
            let path = format!("{root}/replays/{id}-{h:016x}.json");
            std::fs::create_dir_all(format!("{root}/replays")).ok();
            let rec = json!({"property": id, "stream": "libfuzzer", "block": 0, "seed": 0, "tier": "thorough", "category": f.category, "detail": f.detail, "case": case, "fuzz_bytes_hex": verif::engine::hex(&data)});
            std::fs::write(&path, serde_json::to_string_pretty(&rec).unwrap()).expect("write replay");
            eprintln!("  [{}] {}", f.category, f.detail.chars().take(400).collect::<String>());
            println!("VIOLATION property={id} replay={path}");
            1
        }
        _ => {
            eprintln!("fuzz artifact {} does not reproduce as a property failure (known finding, or a fuzzer-side limit such as -timeout / -rss_limit)", args[3]);
            0
        }
    }
}

/// `verif fuzz-report <ID> <logdir> <runs_per_job> <jobs> <artifacts>`: merge the campaign's numbers into the evidence file.
fn fuzz_report(args: &[String]) -> i32 {
    let id = &args[2];
    let logdir = &args[3];
    let root = root();
    let path = format!("{root}/evidence/{id}.json");
    let Some(mut ev) = std::fs::read_to_string(&path).ok().and_then(|t| serde_json::from_str::<Value>(&t).ok()) else { return 1 };
    let mut total_runs = 0u64;
    let mut max_cov = 0u64;
    let mut corpus = 0u64;
    if let Ok(rd) = std::fs::read_dir(logdir) {
        for e in rd.flatten() {
            let Ok(t) = std::fs::read_to_string(e.path()) else { continue };
            for l in t.lines() {
                if let Some(rest) = l.strip_prefix("Done ") {
                    total_runs += rest.split_whitespace().next().and_then(|x| x.parse::<u64>().ok()).unwrap_or(0);
                }
                if l.contains(" cov: ") {
                    let mut it = l.split_whitespace();
                    while let Some(w) = it.next() {
                        if w == "cov:" {
                            max_cov = max_cov.max(it.next().and_then(|x| x.parse().ok()).unwrap_or(0));
                        }
                        if w == "corp:" {
                            corpus = corpus.max(it.next().and_then(|x| x.split('/').next().and_then(|y| y.parse().ok())).unwrap_or(0));
                        }
                    }
                }
            }
        }
    }
    ev["coverage"]["fuzz"] = json!({
        "engine": "libFuzzer (cargo-fuzz 0.13, ASan, debug assertions), oracle inside the target; bytes decoded as text or through proptest's pass-through RNG",
        "jobs": args.get(5).and_then(|x| x.parse::<u64>().ok()).unwrap_or(0),
        "runs_per_job": args.get(4).and_then(|x| x.parse::<u64>().ok()).unwrap_or(0),
        "runs_done": total_runs,
        "edge_coverage_max": max_cov,
        "corpus_units_max": corpus,
        "artifacts": args.get(6).and_then(|x| x.parse::<u64>().ok()).unwrap_or(0),
    });
    if let Some(e) = ev["coverage"]["evaluations"].as_u64() {
        ev["coverage"]["evaluations"] = json!(e + total_runs);
    }
    std::fs::write(&path, serde_json::to_string_pretty(&ev).unwrap()).expect("write evidence");
    0
}
