//! Shared text input spaces (DESIGN §3): G-exh, G-soup, G-lines, G-mut, corpus.

use crate::engine::{shrink_text, text_case, CaseInfo, CheckResult, Ctx, Fail, StreamSpec, Tier};
use proptest::prelude::*;
use serde_json::Value;
use std::sync::OnceLock;

pub fn root() -> String {
    std::env::var("VERIF_ROOT").unwrap_or_else(|_| "/verif".to_string())
}

// ------------------------------------------------------------------------------------------------
// Corpus
// ------------------------------------------------------------------------------------------------

#[derive(Clone, Debug)]
pub struct CorpusCase {
    pub id: String,
    pub yaml: String,
    pub tree: String,
    pub json: Option<String>,
    pub fail: bool,
}

pub fn corpus() -> &'static Vec<CorpusCase> {
    static C: OnceLock<Vec<CorpusCase>> = OnceLock::new();
    C.get_or_init(|| {
        let path = format!("{}/corpus/suite.json", root());
        let text = std::fs::read_to_string(&path).unwrap_or_else(|e| panic!("cannot read {path}: {e}"));
        let v: Value = serde_json::from_str(&text).expect("suite.json");
        v.as_array()
            .unwrap()
            .iter()
            .map(|e| CorpusCase {
                id: e["id"].as_str().unwrap().to_string(),
                yaml: e["yaml"].as_str().unwrap().to_string(),
                tree: e["tree"].as_str().unwrap().to_string(),
                json: e.get("json").and_then(|j| j.as_str()).map(|s| s.to_string()),
                fail: e["fail"].as_bool().unwrap(),
            })
            .collect()
    })
}

/// Extra hand-written seed documents (string literals in the style of the repository's own tests).
pub const GOLDEN: &[&str] = &[
    "a0 bb: val\na1: &x\n    b1: 4\n    b2: d\na2: 4\na3: [1, 2, 3]\na4:\n    - [a1, a2]\n    - 2\na5: *x\n",
    "%YAML 1.1\n%TAG !t! tag:test,2024:\n--- !t!1 &1\nfoo: \"bar\"\n--- !t!2 &2\nbaz: \"qux\"\n",
    "- |\n literal\n  text\n\n- >+\n folded\n text\n\n\n- plain\n  multi\n- 'single ''q'' \n  two'\n- \"dq \\x41 \\u00e9 \\\n  cont\"\n",
    "? - a\n  - b\n: {x: y, ? z, [p, q]: r}\n? |\n  block key\n: - one # c\n  - two\n",
    "--- # comment\n[a, [b, c], {d: e, f}, \"g\":h]\n...\n--- &a !!map\n? &b k : *b\n*a : x\n",
    "key: - a\n",
    "a:\n- b\n- c\nd:\n  - e\n",
    "{\"a\":[1,2.5,true,null,\"s\\n\"],\"b\":{}}",
    "\u{feff}# bom\n- é: 中\n  😀: x\n",
    "- !!str a\n- !local b\n- !<tag:x> c\n- ! d\n",
    // document boundaries: what must not leak from one document into the next
    "&a x\n...\n*a\n",
    "--- &a x\n--- *a\n",
    "- &a 1\n- *a\n---\n- &b 2\n- *b\n",
    "%TAG !e! tag:e.example,2000:\n--- !e!a x\n...\n!e!b y\n",
    "%TAG !! tag:x.example,2000:\n--- !!a x\n...\n!!str y\n",
    "a: &x 1\n...\nb: *x\n",
    "[ ? a : b, : d ]\n",
    "k: {a: [b, {c: d}], ? e : f}\n...\n[g: h]\n",
    // feature classes the corpus is thin on: a tab after a document marker, block scalar headers
    // with comments, multi-line flow collections with node properties on their own line, long
    // non-canonical numbers, a scalar that ends the input without a line break
    "--- |\ntext\n---\t|\nmore\n...\t# end\n",
    "plain\n---\t[b, c]\n",
    "a: | # note\n  one\n  two\nb: >- # other\n  three\n",
    "{ &x\n  a: b, !!str\n  c: &y\n  d, *x : e }\n",
    "- [ &a\n    x, !t\n    y ]\n- { ? &k\n      q\n    : v }\n",
    "n: 0000000000000000000000000000000000000000000000000000000000000000042\nm: 115792089237316195423570985008687907853269984665640564039457584007913129639936\n",
    "- a,\n- k: b]",
    "--- --- x\n--- ... y\n",
    "a:\t",
    // one tag in several spellings (shorthand, verbatim, through a declared handle) on equal texts
    "%TAG !y! tag:yaml.org,2002:\n---\n!!int 12: a\nx: y\n!<tag:yaml.org,2002:int> 12: b\n!y!int 12: c\n? !!str 12\n: d\n? !<tag:yaml.org,2002:str> 12\n: e\n",
    "- [!!int 7, !<tag:yaml.org,2002:int> 7, !<!int> 7, !int 7]\n- {!!bool true: 1, !<tag:yaml.org,2002:bool> true: 2, true: 3}\n",
    // node properties given twice / in both orders, with aliases to every name; document-end markers that close nothing
    "- &a !t x\n- !t &b y\n- &c !t &d z\n- [*a, *b, *c, *d]\n",
    "k: &a !t &b\n  - 1\nl: *a\nm: *b\n",
    "...\n...\na\n...\n...\n--- b\n...\n",
];

// ------------------------------------------------------------------------------------------------
// Alphabets
// ------------------------------------------------------------------------------------------------

pub const SIGMA_YAML24: &[&str] = &[
    "a", "1", " ", "\n", "\t", "-", ":", "?", ",", "[", "]", "{", "}", "#", "&", "*", "!", "|", ">", "'", "\"", "%", "\\", ".",
];
pub const SIGMA_CORE14: &[&str] = &["a", " ", "\n", "-", ":", "?", ",", "[", "]", "{", "}", "#", "\"", "|"];
/// multi-byte and CR variants (C10 / C12 / C14)
pub const SIGMA_MB12: &[&str] = &["a", " ", "\n", "\r", "é", "中", "-", ":", "#", "\"", "|", "["];
/// CR-free multi-byte alphabet with block/flow scalars, used by the line-break property
pub const SIGMA_LB12: &[&str] = &["a", " ", "\n", "é", "-", ":", "#", "\"", "'", "|", ">", "\\"];

pub fn alphabet(name: &str) -> &'static [&'static str] {
    match name {
        "yaml24" => SIGMA_YAML24,
        "core14" => SIGMA_CORE14,
        "mb12" => SIGMA_MB12,
        "lb12" => SIGMA_LB12,
        _ => panic!("unknown alphabet {name}"),
    }
}

/// number of strings of length <= k over n symbols
pub fn exh_total(n: u64, k: u32) -> u64 {
    (0..=k).map(|l| n.pow(l)).sum()
}

/// Iterator over strings with indices [lo, hi) in length-then-lexicographic order.
pub struct ExhIter {
    alpha: &'static [&'static str],
    digits: Vec<usize>,
    remaining: u64,
}

impl ExhIter {
    pub fn new(alpha: &'static [&'static str], maxlen: u32, lo: u64, hi: u64) -> ExhIter {
        let n = alpha.len() as u64;
        let total = exh_total(n, maxlen);
        let hi = hi.min(total);
        let mut idx = lo.min(hi);
        let remaining = hi - idx;
        let mut len = 0u32;
        while len <= maxlen && idx >= n.pow(len) {
            idx -= n.pow(len);
            len += 1;
        }
        let mut digits = vec![0usize; len as usize];
        for d in digits.iter_mut().rev() {
            *d = (idx % n) as usize;
            idx /= n;
        }
        ExhIter { alpha, digits, remaining }
    }
}

impl Iterator for ExhIter {
    type Item = String;
    fn next(&mut self) -> Option<String> {
        if self.remaining == 0 {
            return None;
        }
        self.remaining -= 1;
        let s: String = self.digits.iter().map(|d| self.alpha[*d]).collect();
        // increment odometer
        let n = self.alpha.len();
        let mut i = self.digits.len();
        loop {
            if i == 0 {
                // overflow: next length
                let l = self.digits.len() + 1;
                self.digits = vec![0; l];
                break;
            }
            i -= 1;
            self.digits[i] += 1;
            if self.digits[i] < n {
                break;
            }
            self.digits[i] = 0;
        }
        Some(s)
    }
}

// ------------------------------------------------------------------------------------------------
// Soups
// ------------------------------------------------------------------------------------------------

pub const SOUP_TOKENS: &[&str] = &[
    "a", "b", "1", "x: ", "k", " ", " ", "  ", "\n", "\n", "\n  ", "\n- ", "\n    ", "\t", "-", "- ", ":", ": ", "?", "? ", ",", ", ",
    "[", "]", "{", "}", "#", "#c", " #c", "&a ", "&b", "*a", "*b ", "!", "!t ", "!!str ", "!!int ", "!e!x ", "!<u:v> ", "|", "|-", "|+\n", ">",
    ">+2", ">\n", "'", "\"", "'s'", "\"q\"", "\"\\n\"", "\\", "\\n", "\\x41", "\\u00e9", "\\\n", "%", "%YAML 1.2\n", "%TAG !e! tag:e:\n",
    "---", "--- ", "---\n", "...", "...\n", ".", "~", "null", "true", "0x1F", "1.5", "é", "中", "😀", "\u{feff}", "\u{85}", "\u{2028}", "\r", "\r\n",
    "''", "\"\"", "[]", "{}", "a: b", "- a\n", "k:\n", "abcdefghijklmnopqrst", "                 ", "\n                  ", "# a comment longer than sixteen\n",
    "plain words here", "k: |\n  x\n  y\n", "- >\n a\n\n b\n",
    // directive and tag material (added after seeded changes C01-m3 / C01-m4 / C10-m3 were missed)
    "%YAML ", "%YAML 1.", "4294967296", "9999999999", "%TAG ", "!a-b!x ", "%TAG !a-b! tag:e:\n", "%C3", "%C3%A9", "%E4%B8", "%F0", "%zz", "%C3%",
    "!e%C3%A9 ", "%YAML 1.2\r\n", "%FOO x\n", "!<", "tag:e:", "!e! ",
    // NUL (the Input contract's end-of-input sentinel) inside content, a tab after a document marker,
    // comments on block scalar headers, numbers far longer than any canonical form (added after the
    // round-3 seeded changes C01-m6, C03-m6 / C05-m5, C05-m6, C19-m6 were missed)
    "!<tag:yaml.org,2002:int> ", "!<tag:yaml.org,2002:str> ", "12: ", "!!int 12: ",
    // number-like words on both sides of the core schema (added after round-4 changes C07-m7 / m8, C08-m7, C13-m7 / m8, C01-m7)
    "-0.0", "-.0", "-0", ".inf", "-.INF", ".NaN", "-inf", "+NaN", "Infinity", "-infinity", "nan", "0o17", "+0x10", "+0o7", "0x-1", "+12", "1_000", "3e23", "7e-23", "1e22",
    "0.1000000000000000055511151231257827021181583404541015625", "340282366920938463463374607431768211456", "-9223372036854775808", "9223372036854775808",
    "\"\\uD800\"", "\"\\ud83d\\ude00\"", "\\uDFFF", "\\U00110000", "\\UFFFFFFFF", "\\U0010FFFF", "\\xFF", "\\uD7FF\\uE000", "\0", "a\0b", "---\t", "...\t", "---\t|\n", "| # c\n", "> # c\r", "|2-\n", "|+ \n",
    "0000000000000000000000000000000000000000000000000000000000000000042", "115792089237316195423570985008687907853269984665640564039457584007913129639936",
    "0.00000000000000000000000000000000000000000000000000000000000000001", "0x00000000000000000000000000000000000000000000000000000000000000ff",
    // node properties in every order and number, an alias to each (added after round-5 change C02-m9), repeated / leading document-end markers (C06-m9)
    "&a !t &b x", "!t &a !u x", "&a &b x", "&a !t ", "!t &b ", "&a !!str &b ", "\n- *a", ", *a", "\n- *b", "...\n... ", "\n...\n...", "... ",
];

pub fn soup_strategy() -> impl Strategy<Value = Vec<&'static str>> {
    proptest::collection::vec(proptest::sample::select(SOUP_TOKENS), 1..40)
}

pub const LINE_BODIES: &[&str] = &[
    "k: v", "k2: v", "- x", "- y", "? k", ": v", "k:", "-", "- - z", "- k: v", "? - q", "[a, b", "]", "[a, b]", "{a: 1,", "}", "{a: 1}",
    "\"multi", "line\"", "'sq", "it''s'", "| ", "|-", ">", ">+", "|2", "text", "more text", "# c", "", "", "  ", "---", "...", "--- x",
    "%TAG !e! tag:e:", "%YAML 1.2", "&a", "&a k: v", "*a", "*a : v", "!t", "!!str s", "!e!x v", "k: [a,", "b]", "k: \"q", "k: |", "k: >-",
    "- |", "- &a x", "- *a", "? |", "a: b: c", "\"k\": v", "'k': v", "k: v # c", "k:\tv", "-\tx", "é: 中", ", x", "x ,", "k : v", "[", "{",
    "---\t|", "...\t# c", "---\tx", "a\0b", "k: | # note", "- > # note", "k: |2-", "&a", "!!str",
    "!!int 12: a", "!<tag:yaml.org,2002:int> 12: b", "? !!str 12", "!<tag:yaml.org,2002:str> 12: c", "!!int 12: d",
    "z: -0.0", "- -.0", "i: -inf", "- +NaN", "w: Infinity", "h: +0x10", "- 0o17", "f: 3e23", "m: -9223372036854775808", "k: \"\\uD800\"", "- \"\\ud83d\\ude00\"", "? # k", "?\t# c", "k: |\t# c", "- >\t# c",
    "k: 0000000000000000000000000000000000000000000000000000000000000000042", "- 115792089237316195423570985008687907853269984665640564039457584007913129639936",
    "- &a !t &b x", "k: !t &a !u v", "- &a &b x", "&a !t &b", "j: *a", "- *b", "[ &a !!str &b x, *a ]", "... x", "... # c",
];

pub fn lines_strategy() -> impl Strategy<Value = Vec<(u8, &'static str)>> {
    // indentation 0..8, or 9 = a tab
    proptest::collection::vec((0u8..10, proptest::sample::select(LINE_BODIES)), 1..14)
}

pub fn render_lines(lines: &[(u8, &'static str)], final_break: bool) -> String {
    let mut s = String::new();
    for (i, (ind, body)) in lines.iter().enumerate() {
        if *ind == 9 {
            s.push('\t');
        } else {
            for _ in 0..*ind {
                s.push(' ');
            }
        }
        s.push_str(body);
        if i + 1 < lines.len() || final_break {
            s.push('\n');
        }
    }
    s
}

// ------------------------------------------------------------------------------------------------
// Mutations of corpus documents
// ------------------------------------------------------------------------------------------------

#[derive(Clone, Debug)]
pub struct MutOp {
    pub kind: u8,
    pub pos: u16,
    pub arg: u8,
}

pub const INDICATORS: &[&str] = &[
    "-", ":", "?", ",", "[", "]", "{", "}", "#", "&a", "*a", "!", "|", ">", "'", "\"", "%", " ", "\n", "\t", "- ", ": ", "? ", "---", "...", "\\",
];

pub fn mut_strategy(ndocs: usize) -> impl Strategy<Value = (usize, usize, Vec<MutOp>)> {
    (
        0..ndocs,
        0..ndocs,
        proptest::collection::vec((0u8..13, any::<u16>(), any::<u8>()).prop_map(|(kind, pos, arg)| MutOp { kind, pos, arg }), 1..6),
    )
}

fn pick(pos: u16, len: usize) -> usize {
    // monotone index mapping (no modulo) so shrinking moves towards the start
    ((pos as usize) * (len + 1)) >> 16
}

pub fn apply_mutations(base: &str, other: &str, ops: &[MutOp]) -> String {
    let mut cur: Vec<char> = base.chars().collect();
    for op in ops {
        let n = cur.len();
        match op.kind {
            0 => {
                // delete a char
                if n > 0 {
                    let i = pick(op.pos, n - 1);
                    cur.remove(i);
                }
            }
            1 => {
                // duplicate a char
                if n > 0 {
                    let i = pick(op.pos, n - 1);
                    let c = cur[i];
                    cur.insert(i, c);
                }
            }
            2 => {
                // swap adjacent chars
                if n > 1 {
                    let i = pick(op.pos, n - 2);
                    cur.swap(i, i + 1);
                }
            }
            3 => {
                // insert an indicator
                let i = pick(op.pos, n);
                let tok = INDICATORS[(op.arg as usize * INDICATORS.len()) >> 8];
                for (k, c) in tok.chars().enumerate() {
                    cur.insert(i + k, c);
                }
            }
            4 | 5 | 6 => {
                // line operations
                let s: String = cur.iter().collect();
                let mut lines: Vec<String> = s.split_inclusive('\n').map(|l| l.to_string()).collect();
                if lines.is_empty() {
                    continue;
                }
                let i = pick(op.pos, lines.len() - 1);
                match op.kind {
                    4 => {
                        lines.remove(i);
                    }
                    5 => {
                        let l = lines[i].clone();
                        lines.insert(i, l);
                    }
                    _ => {
                        // re-indent by -3..+4
                        let delta = (op.arg % 8) as i32 - 3;
                        if delta >= 0 {
                            lines[i] = format!("{}{}", " ".repeat(delta as usize), lines[i]);
                        } else {
                            let mut l = lines[i].as_str();
                            for _ in 0..(-delta) {
                                l = l.strip_prefix(' ').unwrap_or(l);
                            }
                            lines[i] = l.to_string();
                        }
                    }
                }
                cur = lines.concat().chars().collect();
            }
            7 => {
                // truncate
                let i = pick(op.pos, n);
                cur.truncate(i);
            }
            9 => {
                // turn the blank at or after the position into a tab (`--- x` -> `---\tx`, `k: v` -> `k:\tv`)
                if n > 0 {
                    let i = pick(op.pos, n - 1);
                    if let Some(k) = (i..n).find(|k| cur[*k] == ' ') {
                        cur[k] = '\t';
                    }
                }
            }
            10 => {
                // the whole document in another line-break style
                let s: String = cur.iter().collect();
                let s = if op.arg % 2 == 0 { s.replace('\n', "\r\n") } else { s.replace('\n', "\r") };
                cur = s.chars().collect();
            }
            11 => {
                // insert a character that is special to the scanner or to an input back-end
                const SPECIAL: [char; 12] = ['\0', '\r', '\u{85}', '\u{2028}', '\u{feff}', '\u{7f}', '\u{1}', 'é', '😀', '\u{a0}', '\u{d7ff}', '\u{10ffff}'];
                let i = pick(op.pos, n);
                cur.insert(i, SPECIAL[(op.arg as usize * SPECIAL.len()) >> 8]);
            }
            12 => {
                // break the line at the blank at or after the position and indent the rest
                if n > 0 {
                    let i = pick(op.pos, n - 1);
                    if let Some(k) = (i..n).find(|k| cur[*k] == ' ') {
                        cur[k] = '\n';
                        for _ in 0..(op.arg % 6) {
                            cur.insert(k + 1, ' ');
                        }
                    }
                }
            }
            _ => {
                // splice: prefix of this document + suffix of another
                let o: Vec<char> = other.chars().collect();
                let i = pick(op.pos, n);
                let j = ((op.arg as usize) * (o.len() + 1)) >> 8;
                cur.truncate(i);
                cur.extend_from_slice(&o[j.min(o.len())..]);
            }
        }
    }
    cur.into_iter().collect()
}

/// Deeply nested documents on both sides of 255 / 256 open collections (a byte-sized counter
/// anywhere on a path shows here and nowhere else).
pub fn deep_nest_docs() -> Vec<String> {
    let mut v = vec![];
    for n in [200usize, 254, 255, 256, 257, 300, 600] {
        v.push(format!("{}a\n", "- ".repeat(n)));
        v.push(format!("{}a\n", "? ".repeat(n)));
        v.push(format!("{}a", "- ? ".repeat(n / 2)));
        let mut per_line = String::new();
        for d in 0..n.min(300) {
            per_line.push_str(&" ".repeat(d));
            per_line.push_str("k:\n");
        }
        v.push(per_line);
        let mut seq_per_line = String::new();
        for d in 0..n.min(300) {
            seq_per_line.push_str(&" ".repeat(d));
            seq_per_line.push_str("-\n");
        }
        seq_per_line.push_str(&" ".repeat(n.min(300)));
        seq_per_line.push_str("- x\n");
        v.push(seq_per_line);
        v.push(format!("{}{}", "[".repeat(n), "]".repeat(n)));
        v.push(format!("{}x{}", "{a: ".repeat(n), "}".repeat(n)));
        // block levels around flow levels: together beyond 256, each alone below
        let f = 250.min(n);
        v.push(format!("{}{}{}\n", "- ".repeat(n - f + 10), "[".repeat(f), "]".repeat(f)));
        // a second document that is deep
        v.push(format!("a\n--- \n{}b\n", "- ".repeat(n)));
    }
    v
}

pub fn seed_docs() -> Vec<&'static str> {
    let mut v: Vec<&'static str> = corpus().iter().map(|c| c.yaml.as_str()).collect();
    v.extend(GOLDEN.iter().copied());
    v
}

// ------------------------------------------------------------------------------------------------
// Text stream plans
// ------------------------------------------------------------------------------------------------

#[derive(Clone, Debug)]
pub struct TextPlan {
    /// (alphabet name, max length)
    pub exh: Vec<(&'static str, u32)>,
    pub exh_block: u64,
    pub soup: u64,
    pub lines: u64,
    pub mutations: u64,
    pub deepblock: u64,
    /// model-rendered well-formed streams (G-model)
    pub rendered: u64,
    pub rand_block: u64,
    pub corpus: bool,
}

impl TextPlan {
    pub fn streams(&self) -> Vec<StreamSpec> {
        let mut v = vec![];
        for (a, k) in &self.exh {
            let total = exh_total(alphabet(a).len() as u64, *k);
            v.push(StreamSpec::new(
                &format!("exh:{a}:{k}"),
                total.div_ceil(self.exh_block),
                true,
                &format!("every string of length <= {k} over alphabet {a} ({} symbols): {total} strings", alphabet(a).len()),
            ));
        }
        if self.soup > 0 {
            v.push(StreamSpec::new("soup", self.soup.div_ceil(self.rand_block), false, &format!("{} random token soups (1..40 tokens of {} kinds)", self.soup, SOUP_TOKENS.len())));
        }
        if self.lines > 0 {
            v.push(StreamSpec::new("lines", self.lines.div_ceil(self.rand_block), false, &format!("{} line-structured soups (1..14 lines, indentation 0..8 or tab, {} line bodies)", self.lines, LINE_BODIES.len())));
        }
        if self.mutations > 0 {
            v.push(StreamSpec::new("mut", self.mutations.div_ceil(self.rand_block), false, &format!("{} mutated test-suite / golden documents (1..6 mutations)", self.mutations)));
        }
        if self.rendered > 0 {
            v.push(StreamSpec::new("rendered", self.rendered.div_ceil(self.rand_block), false, &format!("{} streams rendered from abstract node trees under generated layout (the C03 generator; 1 in 8 additionally hit by one random mutation)", self.rendered)));
        }
        if self.deepblock > 0 {
            v.push(StreamSpec::new("deepblock", self.deepblock.div_ceil(self.rand_block), false, &format!("{} block scalars under indentation 0..140 (crossing the 16- and 128-char buffer thresholds), literal/folded x chomping x explicit indicator x line shapes x tail", self.deepblock)));
        }
        if self.corpus {
            v.push(StreamSpec::new("corpus", 1, true, "all 402 yaml-test-suite inputs and the golden seeds, unmodified"));
            v.push(StreamSpec::new("deepnest", 1, true, &format!("{} documents nested 200..600 levels deep (block sequences, explicit keys, a key per line, flow collections up to and beyond the flow limit, block around flow, alternations): depths on both sides of 255 / 256", deep_nest_docs().len())));
        }
        v
    }

    fn cases_in_block(total: u64, per: u64, block: u64) -> u64 {
        let done = per * block;
        if done >= total {
            0
        } else {
            (total - done).min(per)
        }
    }

    /// Run one block of one text stream through `check`.
    pub fn run_block(&self, ctx: &mut Ctx, stream: &str, block: u64, check: &dyn Fn(&mut CaseInfo, &str) -> CheckResult) {
        if let Some(rest) = stream.strip_prefix("exh:") {
            let mut it = rest.split(':');
            let a = it.next().unwrap();
            let k: u32 = it.next().unwrap().parse().unwrap();
            let lo = block * self.exh_block;
            for s in ExhIter::new(alphabet(a), k, lo, lo + self.exh_block) {
                if let Err(f) = eval_text(ctx, check, &s) {
                    fail_text(ctx, check, &s, f);
                }
            }
            return;
        }
        match stream {
            "soup" => {
                let n = Self::cases_in_block(self.soup, self.rand_block, block) as u32;
                let mut found: Option<(String, Fail)> = None;
                crate::engine::run_proptest(
                    ctx,
                    soup_strategy(),
                    n,
                    |v| text_case(&v.concat()),
                    |ctx, v| {
                        let s = v.concat();
                        eval_text(ctx, check, &s)
                    },
                );
                let _ = &mut found;
                post_shrink(ctx, check);
            }
            "lines" => {
                let n = Self::cases_in_block(self.lines, self.rand_block, block) as u32;
                crate::engine::run_proptest(
                    ctx,
                    (lines_strategy(), any::<bool>()),
                    n,
                    |(v, fb)| text_case(&render_lines(v, *fb)),
                    |ctx, (v, fb)| {
                        let s = render_lines(v, *fb);
                        eval_text(ctx, check, &s)
                    },
                );
                post_shrink(ctx, check);
            }
            "mut" => {
                let n = Self::cases_in_block(self.mutations, self.rand_block, block) as u32;
                let docs = seed_docs();
                crate::engine::run_proptest(
                    ctx,
                    mut_strategy(docs.len()),
                    n,
                    |(i, j, ops)| text_case(&apply_mutations(docs[*i], docs[*j], ops)),
                    |ctx, (i, j, ops)| {
                        let s = apply_mutations(docs[*i], docs[*j], ops);
                        eval_text(ctx, check, &s)
                    },
                );
                post_shrink(ctx, check);
            }
            "rendered" => {
                let n = Self::cases_in_block(self.rendered, self.rand_block, block) as u32;
                let text_of = |t: &Vec<u8>, l: &Vec<u8>, m: &Option<MutOp>| {
                    let s = crate::model::gen_stream(t, &crate::model::GenCfg::default());
                    let (text, _) = crate::model::render(&s, l, true);
                    match m {
                        Some(op) => apply_mutations(&text, "k: [a, b]\n", std::slice::from_ref(op)),
                        None => text,
                    }
                };
                let strat = (
                    proptest::collection::vec(any::<u8>(), 0..160),
                    proptest::collection::vec(any::<u8>(), 0..300),
                    proptest::option::weighted(0.125, (0u8..9, any::<u16>(), any::<u8>()).prop_map(|(kind, pos, arg)| MutOp { kind, pos, arg })),
                );
                crate::engine::run_proptest(
                    ctx,
                    strat,
                    n,
                    |(t, l, m)| text_case(&text_of(t, l, m)),
                    |ctx, (t, l, m)| {
                        let s = text_of(t, l, m);
                        eval_text(ctx, check, &s)
                    },
                );
                post_shrink(ctx, check);
            }
            "deepblock" => {
                let n = Self::cases_in_block(self.deepblock, self.rand_block, block) as u32;
                crate::engine::run_proptest(
                    ctx,
                    deep_block_strategy(),
                    n,
                    |d| text_case(&render_deep_block(d)),
                    |ctx, d| {
                        let s = render_deep_block(d);
                        eval_text(ctx, check, &s)
                    },
                );
                post_shrink(ctx, check);
            }
            "corpus" => {
                for s in seed_docs() {
                    if let Err(f) = eval_text(ctx, check, s) {
                        fail_text(ctx, check, s, f);
                    }
                }
            }
            "deepnest" => {
                for s in deep_nest_docs() {
                    if let Err(f) = eval_text(ctx, check, &s) {
                        // no text shrinking: the depth is the point, and the shrinker is quadratic
                        ctx.record(text_case(&s), &f);
                    }
                }
            }
            _ => panic!("unknown text stream {stream}"),
        }
    }
}

pub fn eval_text(ctx: &mut Ctx, check: &dyn Fn(&mut CaseInfo, &str) -> CheckResult, s: &str) -> CheckResult {
    ctx.eval(&|| text_case(s), |info| check(info, s))
}

/// Shrink a failing text deterministically (same failure category) and record it.
pub fn fail_text(ctx: &mut Ctx, check: &dyn Fn(&mut CaseInfo, &str) -> CheckResult, s: &str, f: Fail) {
    let was = ctx.frozen;
    ctx.frozen = true;
    let cat = f.category.clone();
    let shrunk = shrink_text(s, |c| matches!(eval_text(ctx, check, c), Err(e) if e.category == cat));
    let f2 = eval_text(ctx, check, &shrunk).err().unwrap_or(f);
    ctx.frozen = was;
    ctx.record(text_case(&shrunk), &f2);
}

/// After proptest recorded a failure whose case is a text, shrink the text further.
fn post_shrink(ctx: &mut Ctx, check: &dyn Fn(&mut CaseInfo, &str) -> CheckResult) {
    let Some(last) = ctx.failures.pop() else { return };
    if last.case.get("input").is_none() {
        ctx.failures.push(last);
        return;
    }
    let s = crate::engine::case_text(&last.case);
    fail_text(ctx, check, &s, Fail::new(&last.category, last.detail.clone()));
}

impl TextPlan {
    pub fn with_exh(mut self, exh: Vec<(&'static str, u32)>) -> TextPlan {
        self.exh = exh;
        self
    }
    pub fn with_deepblock(mut self, n: u64) -> TextPlan {
        self.deepblock = n;
        self
    }
}

pub fn plan(tier: Tier, scale: f64) -> TextPlan {
    let q = |n: u64| ((n as f64) * scale) as u64;
    match tier {
        Tier::Quick => TextPlan {
            exh: vec![("yaml24", 4)],
            exh_block: 25_000,
            soup: q(600_000),
            lines: q(300_000),
            mutations: q(300_000),
            deepblock: 0,
            rendered: q(300_000),
            rand_block: 12_500,
            corpus: true,
        },
        Tier::Thorough => TextPlan {
            exh: vec![("yaml24", 5), ("core14", 6)],
            exh_block: 100_000,
            soup: q(2_500_000),
            lines: q(1_500_000),
            mutations: q(1_000_000),
            deepblock: 0,
            rendered: q(1_500_000),
            rand_block: 50_000,
            corpus: true,
        },
    }
}


// ------------------------------------------------------------------------------------------------
// Deeply indented block scalars (cross the input back-ends' buffer thresholds)
// ------------------------------------------------------------------------------------------------

#[derive(Clone, Debug)]
pub struct DeepBlock {
    pub indent: usize,
    pub folded: bool,
    pub chomp: u8,
    pub explicit: bool,
    pub lines: Vec<(u8, u8)>,
    pub tail: u8,
}

pub fn deep_block_strategy() -> impl Strategy<Value = DeepBlock> {
    (
        prop_oneof![0usize..20, 5usize..20, 120usize..135, 0usize..140],
        any::<bool>(),
        0u8..3,
        any::<bool>(),
        proptest::collection::vec((0u8..4, 0u8..8), 0..6),
        0u8..4,
    )
        .prop_map(|(indent, folded, chomp, explicit, lines, tail)| DeepBlock { indent, folded, chomp, explicit, lines, tail })
}

pub const DEEP_TEXTS: &[&str] = &["x", "text é", "", "# not a comment", "- a", "k: v", "中中中中中中中中中中中中中中中中中中", "\tt"];

pub fn render_deep_block(d: &DeepBlock) -> String {
    let mut s = String::new();
    // nest mappings: one level per 7 columns, then pad the last key to reach `indent`
    let mut col = 0;
    while col + 7 <= d.indent {
        s.push_str(&" ".repeat(col));
        s.push_str("k:\n");
        col += 7;
    }
    s.push_str(&" ".repeat(d.indent));
    s.push_str("key: ");
    s.push(if d.folded { '>' } else { '|' });
    match d.chomp {
        1 => s.push('-'),
        2 => s.push('+'),
        _ => {}
    }
    let content_indent = d.indent + 2;
    if d.explicit {
        s.push('2');
    }
    s.push('\n');
    for (extra, t) in &d.lines {
        let text = DEEP_TEXTS[*t as usize % DEEP_TEXTS.len()];
        if text.is_empty() {
            // empty line, possibly with some (fewer) spaces
            s.push_str(&" ".repeat((*extra as usize * content_indent) / 4));
        } else {
            // explicit indicator allows the first line to be more indented
            let e = if d.explicit { *extra as usize } else { 0 };
            s.push_str(&" ".repeat(content_indent + e));
            s.push_str(text);
        }
        s.push('\n');
    }
    match d.tail {
        1 => s.push('\n'),
        2 => {
            s.push_str(&" ".repeat(d.indent));
            s.push_str("next: v\n");
        }
        3 => {
            s.pop();
        }
        _ => {}
    }
    s
}
