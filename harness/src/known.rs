//! Named signature predicates for known findings (DESIGN §2.5). A predicate looks at the shrunk
//! case and the failure; it must be specific enough that a different violation of the same
//! property is still reported.

use crate::engine::Fail;
use serde_json::Value;

pub fn predicate(name: &str, case: &Value, fail: &Fail) -> bool {
    let _ = (case, fail);
    match name {
        _ => false,
    }
}
