//! Named signature predicates for known findings (DESIGN §2.5). A predicate looks at the shrunk
//! case and the failure; it must be specific enough that a different violation of the same
//! property is still reported.

use crate::engine::Fail;
use serde_json::Value;

pub fn predicate(name: &str, case: &Value, fail: &Fail) -> bool {
    let _ = (case, fail);
    match name {
        // F21 (C18): the text itself starts with U+FEFF; the decoder strips it, load_from_str keeps
        // it as content
        "c18_text_starts_with_bom" => {
            fail.category == "decode-differs"
                && case.get("text").and_then(|t| t.as_str()).map(|t| t.starts_with('\u{feff}')).unwrap_or(false)
        }
        // F12 (C11): recursive drop glue of a deeply nested tree (Vec / LinkedHashMap of nodes)
        "c11_deep_tree_drop" => {
            fail.category == "abort"
                && matches!(case["api"].as_str(), Some("built_drop" | "load_str_drop" | "load_marked_drop"))
                && case["depth"].as_u64().unwrap_or(0) >= 20_000
        }
        // F12 (C11): the emitter recurses per nesting level
        "c11_deep_tree_emit" => {
            // unoptimised frames are larger: there the recursion runs out of stack from ~16 800 levels
            let floor = if case["profile"].as_str() == Some("debug") { 12_000 } else { 20_000 };
            fail.category == "abort" && matches!(case["api"].as_str(), Some("emit" | "emit_ml")) && case["depth"].as_u64().unwrap_or(0) >= floor
        }
        // F25 (C06): a tab used as the indentation of a block collection whose parent is the
        // document or a collection at indentation 0 is accepted (the scanner only polices tabs at
        // columns below the current block indentation)
        "c06_tab_top_level" => fail.category == "accepted:D04-tab-as-block-indentation:tab-at-column-0-parent-indent<=0",
        // F15 (C06): a flow collection continued at (not deeper than) the indentation of its
        // enclosing block is accepted when the continuation line starts with anything but a plain
        // scalar
        "c06_flow_continuation_nonplain" => {
            // only when a plain scalar was scanned inside the flow collection before the line in
            // question: scanning it drops the one-column indent that polices the continuation
            fail.category.starts_with("accepted:D06-flow-continuation-not-deeper-than-block:flow-cont:")
                && (fail.category.ends_with(":after-plain-scalar") || fail.category.ends_with(":inside-plain-scalar"))
        }
        _ => false,
    }
}
