//! Verification harness for saphyr-rs/saphyr: property-based testing and fuzzing machinery.
pub mod drive;
pub mod engine;
pub mod fuzz;
pub mod gen;
pub mod known;
pub mod model;
pub mod nest_scenario;
pub mod oracle;
pub mod props;
