//! libFuzzer entry: decode the fuzzer's bytes into one case of a property and evaluate the
//! property's own oracle on it (the oracle sits inside the target; a crash-only target would check
//! memory safety, not the property).

use crate::engine::{from_bytes, text_case, CheckResult, Ctx};
use crate::props::*;
use proptest::prelude::*;
use serde_json::json;

fn text_of(data: &[u8]) -> String {
    String::from_utf8_lossy(data).into_owned()
}

/// properties with a fuzz entry
pub const FUZZABLE: &[&str] = &["C01", "C02", "C03", "C04", "C05", "C06", "C07", "C08", "C09", "C10", "C12", "C13", "C14", "C15", "C16", "C17", "C18", "C19", "C20"];

/// Returns None when the bytes do not decode to a case.
pub fn fuzz_one(id: &str, ctx: &mut Ctx, data: &[u8]) -> Option<CheckResult> {
    let half = data.len() / 2;
    Some(match id {
        "C01" => {
            let s = text_of(data);
            ctx.eval(&|| text_case(&s), |info| c01::check_input(info, &s, s.len() < 4000))
        }
        "C02" => {
            let s = text_of(data);
            ctx.eval(&|| text_case(&s), |info| c02::check_input(info, &s))
        }
        "C07" => {
            let s = text_of(data);
            ctx.eval(&|| text_case(&s), |info| c07::check_input(info, &s))
        }
        "C10" => {
            let s = text_of(data);
            ctx.eval(&|| text_case(&s), |info| c10::check_input(info, &s))
        }
        "C12" => {
            let s = text_of(data);
            ctx.eval(&|| text_case(&s), |info| c12::check_input(info, &s))
        }
        "C14" => {
            let s = text_of(data);
            ctx.eval(&|| text_case(&s), |info| c14::check_input(info, &s))
        }
        "C17" => {
            let s = text_of(data);
            ctx.eval(&|| text_case(&s), |info| c17::check_input(info, &s, data.len() < 24))
        }
        "C19" => {
            let s = text_of(data);
            ctx.eval(&|| text_case(&s), |info| c19::check_input(info, &s))
        }
        "C03" => {
            let (t, l) = data.split_at(half);
            ctx.eval(&|| c03::case_json(t, l, true), |info| c03::check_rendered(info, t, l, true))
        }
        "C06" => {
            if data.len() < 4 {
                return None;
            }
            let (op, site) = (data[0], u16::from_le_bytes([data[1], data[2]]));
            let rest = &data[3..];
            let (t, l) = rest.split_at(rest.len() / 2);
            ctx.eval(&|| c06::case_json(t, l, op, site), |info| c06::check(info, t, l, op, site))
        }
        "C04" => {
            let (p, c) = from_bytes(&c04::program_strategy(), data)?;
            ctx.eval(&|| c04::program_json(&p, c), |info| c04::check_program(info, &p, c))
        }
        "C05" => {
            let c = from_bytes(&c05::case_strategy(), data)?;
            ctx.eval(&|| c05::case_json(&c), |info| c05::check(info, &c))
        }
        "C08" => {
            if data.len() < 2 {
                return None;
            }
            let tag = c08::TAGS[(data[0] % 8) as usize];
            let style = c08::STYLES[((data[0] / 8) % 5) as usize];
            let doc = data[0] & 0x80 != 0;
            let t = text_of(&data[1..]);
            ctx.eval(&|| c08::case_json(&t, style, tag, if doc { "doc" } else { "api" }), |_| if doc { c08::check_doc(&t, style, tag) } else { c08::check_api(&t, style, tag) })
        }
        "C09" => {
            let (v, c, m) = from_bytes(&(c09::tree_strategy(), any::<bool>(), any::<bool>()), data)?;
            ctx.eval(&|| c09::case_json(&v, c, m), |_| c09::check_tree(&v, c, m))
        }
        "C13" => {
            let case: c13::Case = from_bytes(&(c13::json_tree(), 0usize..5, proptest::collection::vec(any::<u8>(), 0..200)), data)?;
            let (text, _) = c13::serialise(&case.0, c13::LAYOUTS[case.1], &case.2);
            ctx.eval(&|| c13::case_json(&case), |_| c13::check_text(&text, &case.0))
        }
        "C15" => {
            let parts = from_bytes(&proptest::collection::vec(c15::part_strategy(), 2..5), data)?;
            let texts: Vec<String> = parts.iter().map(c15::part_text).collect();
            ctx.eval(&|| json!({"parts": texts}), |info| c15::check_parts(info, &texts))
        }
        "C16" => {
            let (d, k) = from_bytes(&(proptest::collection::vec(c16::doc_spec(), 1..4), any::<bool>()), data)?;
            let docs = c16::normalise(d, k);
            ctx.eval(&|| c16::spec_json(&docs, k), |info| c16::check(info, &docs, k))
        }
        "C18" => {
            if data.is_empty() {
                return None;
            }
            let trap = c18::TRAPS[(data[0] % 6) as usize];
            let b = &data[1..];
            ctx.eval(&|| json!({"bytes_hex": crate::engine::hex(b), "trap": trap.name()}), |info| c18::check_bytes(info, b, trap))
        }
        "C20" => {
            let (node, extra) = from_bytes(&(c20::mapping(), proptest::collection::vec("[a-c1~ ]{0,3}", 0..3)), data)?;
            let probes = c20::probes_for(&node, &extra);
            let idx = [0usize, 1, 7, usize::MAX];
            ctx.eval(&|| json!({"kind": "lookup", "node": node.to_json(), "extra_probes": extra}), |info| c20::check_node(info, &node, &probes, &idx))
        }
        _ => return None,
    })
}
