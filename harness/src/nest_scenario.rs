//! C11 scenarios: the code that runs inside the child process. Self-contained (no harness
//! dependencies) because it is compiled twice: into the `verif` binary (release profile) and into
//! `/verif/nestchild` (unoptimised dev profile, where frames are larger and tail calls stay calls).

use saphyr::{LoadableYamlNode, Scalar, Yaml, YamlEmitter};
use saphyr_parser::{Event, Parser, Span, SpannedEventReceiver};

fn unhex(s: &str) -> Vec<u8> {
    (0..s.len() / 2).filter_map(|i| u8::from_str_radix(&s[2 * i..2 * i + 2], 16).ok()).collect()
}

pub const SHAPES: [&str; 12] = ["seq", "key", "flowseq", "flowmap", "alt-block", "alt-flow", "block-flow", "key-per-level", "block-leaf", "flowseq-closed", "flowmap-closed", "mix"];
pub const APIS: [&str; 8] = ["iter", "load", "load_str_forget", "load_str_drop", "load_marked_drop", "built_drop", "emit", "emit_ml"];

/// Build the nested input. `mix` uses the opener word given (indices into OPENERS).
pub const OPENERS: [&str; 5] = ["- ", "? ", "[", "{a: ", "- - "];

pub fn nest_text(shape: &str, depth: usize, word: &[u8]) -> String {
    let mut s = String::new();
    match shape {
        "seq" => {
            s = "- ".repeat(depth);
            s.push('x');
        }
        "key" => {
            s = "? ".repeat(depth);
            s.push('x');
        }
        "flowseq" => s = "[".repeat(depth),
        // the same nests with every collection closed again (beyond the flow limit the opener is refused)
        "flowseq-closed" => {
            s = "[".repeat(depth);
            s.push_str("x, y");
            s.push_str(&"]".repeat(depth));
        }
        "flowmap-closed" => {
            s = "{a: ".repeat(depth);
            s.push('x');
            s.push_str(&"}".repeat(depth));
        }
        "flowmap" => s = "{a: ".repeat(depth),
        "alt-block" => {
            for i in 0..depth {
                s.push_str(if i % 2 == 0 { "- " } else { "? " });
            }
            s.push('x');
        }
        "alt-flow" => {
            for i in 0..depth {
                s.push_str(if i % 2 == 0 { "[" } else { "{a: " });
            }
        }
        "block-flow" => {
            // block nesting followed by flow nesting (below the flow limit)
            s = "- ".repeat(depth);
            s.push_str(&"[".repeat(200.min(depth)));
            s.push_str(&"]".repeat(200.min(depth)));
        }
        "block-leaf" => {
            // block sequences with a literal block scalar as the innermost node: content lines at
            // 2*depth columns, separated by spaces-only lines of widths around the 16-character
            // window of the iterator back-end and around the content indentation
            s = "- ".repeat(depth);
            s.push_str("|\n");
            let ind = 2 * depth;
            for w in [15usize, 16, 17, 31, 32, 47, 48, ind.saturating_sub(1), ind] {
                s.push_str(&" ".repeat(ind));
                s.push_str("x\n");
                if w <= ind {
                    s.push_str(&" ".repeat(w));
                    s.push('\n');
                }
            }
            s.push_str(&" ".repeat(ind));
            s.push('y');
        }
        "key-per-level" => {
            for d in 0..depth {
                for _ in 0..d {
                    s.push(' ');
                }
                s.push_str("k:\n");
            }
        }
        _ => {
            for i in 0..depth {
                let w = if word.is_empty() { 0 } else { word[i % word.len()] as usize % OPENERS.len() };
                s.push_str(OPENERS[w]);
            }
            s.push('x');
        }
    }
    s
}

struct Sink(usize);
impl<'i> SpannedEventReceiver<'i> for Sink {
    fn on_event(&mut self, _: Event<'i>, _: Span) {
        self.0 += 1;
    }
}

fn built_tree(shape: &str, depth: usize) -> Yaml<'static> {
    let mut y = Yaml::Value(Scalar::String("x".into()));
    for i in 0..depth {
        let map = match shape {
            "flowmap" | "flowmap-closed" | "key" | "key-per-level" => true,
            "alt-block" | "alt-flow" | "mix" => i % 2 == 1,
            _ => false,
        };
        y = if map && shape == "key" {
            // `? ` per level nests in *key* position
            let mut m = hashlink::LinkedHashMap::new();
            m.insert(y, Yaml::Value(Scalar::Null));
            Yaml::Mapping(m)
        } else if map {
            let mut m = hashlink::LinkedHashMap::new();
            m.insert(Yaml::Value(Scalar::String("a".into())), y);
            Yaml::Mapping(m)
        } else {
            Yaml::Sequence(vec![y])
        };
    }
    y
}

/// The scenario itself; runs inside the child. Returns "ok" or "err".
pub fn scenario(shape: &str, api: &str, depth: usize, word: &[u8]) -> &'static str {
    match api {
        "iter" => {
            let text = nest_text(shape, depth, word);
            for e in Parser::new_from_str(&text) {
                if e.is_err() {
                    return "err";
                }
            }
            "ok"
        }
        "load" => {
            let text = nest_text(shape, depth, word);
            let mut sink = Sink(0);
            match Parser::new_from_str(&text).load(&mut sink, true) {
                Ok(()) => "ok",
                Err(_) => "err",
            }
        }
        "load_str_forget" => {
            let text = nest_text(shape, depth, word);
            match Yaml::load_from_str(&text) {
                Ok(d) => {
                    std::mem::forget(d);
                    "ok"
                }
                Err(_) => "err",
            }
        }
        "load_str_drop" => {
            let text = nest_text(shape, depth, word);
            match Yaml::load_from_str(&text) {
                Ok(d) => {
                    drop(d);
                    "ok"
                }
                Err(_) => "err",
            }
        }
        "load_marked_drop" => {
            let text = nest_text(shape, depth, word);
            match saphyr::MarkedYamlOwned::load_from_str(&text) {
                Ok(d) => {
                    drop(d);
                    "ok"
                }
                Err(_) => "err",
            }
        }
        "built_drop" => {
            let y = built_tree(shape, depth);
            drop(y);
            "ok"
        }
        _ => {
            let y = built_tree(shape, depth);
            let mut out = String::new();
            let mut emitter = YamlEmitter::new(&mut out);
            if api == "emit_ml" {
                emitter.multiline_strings(true);
            }
            let r = emitter.dump(&y);
            std::mem::forget(y);
            if r.is_ok() {
                "ok"
            } else {
                "err"
            }
        }
    }
}

/// Entry point of the child process: `verif nest <shape> <api> <depth> <wordhex>`.
pub fn child_main(args: &[String]) -> i32 {
    let shape = args[2].clone();
    let api = args[3].clone();
    let depth: usize = args[4].parse().unwrap_or(1);
    let word = unhex(args.get(5).map(|s| s.as_str()).unwrap_or(""));
    // the default main-thread stack of a Rust program on Linux: 8 MiB
    let h = std::thread::Builder::new().stack_size(8 << 20).spawn(move || scenario(&shape, &api, depth, &word)).expect("spawn");
    match h.join() {
        Ok(r) => {
            println!("{r}");
            0
        }
        Err(_) => {
            println!("panic");
            3
        }
    }
}

