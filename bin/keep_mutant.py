#!/usr/bin/env python3
"""usage: bin/keep_mutant.py <Cxx> <mN> [all]
Confirms a seeded change in its scratch worktree (bin/confirm_mutant.sh), runs the target
property's quick check against it in /repo (bin/try_mutant.sh; with 'all' every property), and
stores patch, demonstration, README and meta.json under /verif/seeded/<Cxx>-<mN>/."""
import json, os, re, shutil, subprocess, sys
P, M = sys.argv[1], sys.argv[2]
ALL = len(sys.argv) > 3
src = f'/tmp/mut/{P}/out/{M}'
dst = f'/verif/seeded/{P}-{M}'
# a confirmation already produced by a parallel `bin/confirm_mutant.sh P M > out/M/confirm.txt` is reused
if os.path.exists(f'{src}/confirm.txt') and open(f'{src}/confirm.txt').read().strip():
    conf = open(f'{src}/confirm.txt').read().strip().splitlines()[-1]
else:
    conf = subprocess.run(['/verif/bin/confirm_mutant.sh', P, M], capture_output=True, text=True).stdout.strip().splitlines()[-1]
ok = ' 0 failed' in conf and 'demo with patch exit=0 ' not in conf and 'demo without patch exit=0 ' in conf
ids = [] if ALL else [P]
tr = subprocess.run(['/verif/bin/try_mutant.sh', f'{src}/patch.diff'] + ids, capture_output=True, text=True).stdout.strip().splitlines()
det = {}
for l in tr:
    m = re.match(r'(C\d+) exit=(\d+) violations=(\d+)\s*(.*)', l)
    if m: det[m.group(1)] = {'exit': int(m.group(2)), 'violations': int(m.group(3)), 'categories': m.group(4).strip()}
print(conf); print('\n'.join(tr))
if not ok:
    print('NOT KEPT: confirmation failed'); sys.exit(1)
os.makedirs(dst, exist_ok=True)
for f in ('patch.diff', 'demo.rs', 'README.md'):
    shutil.copy(f'{src}/{f}', f'{dst}/{f}')
readme = open(f'{src}/README.md').read()
needs = [l.strip() for l in readme.splitlines() if re.search(r'\bneed', l, re.I)][:6]
old = {}
if os.path.exists(f'{dst}/meta.json'):
    old = json.load(open(f'{dst}/meta.json')).get('detection', {})
old.update(det)
meta = {'id': f'{P}-{M}', 'breaks_property': P, 'origin': 'written by an independent sub-agent that saw only the property text and a scratch worktree',
        'needs_to_manifest': needs, 'confirmed': conf,
        'ran': [f'bin/confirm_mutant.sh {P} {M}', f'bin/try_mutant.sh {src}/patch.diff ' + (' '.join(ids) if ids else '(all properties)')],
        'detection': old, 'caught_by_target_check': old.get(P, {}).get('exit') == 1}
json.dump(meta, open(f'{dst}/meta.json', 'w'), indent=1)
print('kept in', dst, 'caught_by_target:', meta['caught_by_target_check'])
