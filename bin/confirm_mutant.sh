#!/bin/sh
# usage: bin/confirm_mutant.sh <Cxx> <m1|m2>
# Confirms, in the scratch worktree /tmp/mut/<Cxx>, that the seeded change applies, that the whole
# repository test-suite still passes with it, and that its demonstration fails with the change and
# passes without it.
P="$1"; M="$2"; WT="/tmp/mut/$P"; D="$WT/out/$M"
export CARGO_NET_OFFLINE=true CARGO_TARGET_DIR="$WT/target"
cd "$WT" || exit 3
git checkout -q -- . ; git clean -fdq parser/tests saphyr/tests 2>/dev/null
if grep -q "parser/tests" "$D/README.md" && ! grep -q "saphyr/tests" "$D/README.md"; then DIR=parser; PKG=saphyr-parser
elif grep -q "saphyr/tests" "$D/README.md" && ! grep -q "parser/tests" "$D/README.md"; then DIR=saphyr; PKG=saphyr
else
  # both or none mentioned: take the first mention
  F=$(grep -o -m1 "parser/tests\|saphyr/tests" "$D/README.md" | head -1); [ "$F" = "saphyr/tests" ] && { DIR=saphyr; PKG=saphyr; } || { DIR=parser; PKG=saphyr-parser; }
fi
NAME="$(echo "$P" | tr 'A-Z' 'a-z')_${M}_demo"
git apply "$D/patch.diff" || { echo "$P/$M: patch does not apply"; exit 3; }
SUITE=$(cargo test --workspace --no-fail-fast --offline 2>&1 | grep -E "^test result" | awk '{p+=$4; f+=$6} END {print p" passed "f" failed"}')
cp "$D/demo.rs" "$DIR/tests/$NAME.rs"
cargo test --offline -p $PKG --test $NAME >"$D/confirm.with.log" 2>&1; WITH=$?
git checkout -q -- .
cargo test --offline -p $PKG --test $NAME >"$D/confirm.without.log" 2>&1; WITHOUT=$?
rm -f "$DIR/tests/$NAME.rs"
echo "$P/$M: suite-with-patch: $SUITE; demo with patch exit=$WITH (want !=0); demo without patch exit=$WITHOUT (want 0); demo dir=$DIR/tests"
