#!/usr/bin/env python3
"""Writes /verif/MANIFEST.json from the table below (kept here so the manifest stays valid)."""
import json, os
ROOT = os.path.dirname(os.path.dirname(os.path.abspath(__file__)))
ALL = ['C%02d' % i for i in range(1, 21)]
CHECKS = {
 # id: (technique, level text, level note, design ref)
 'C01': ('bounded-exhaustive enumeration + proptest generators + call-counting work-bound oracle, process-level abort/hang observation',
         'Every string of length <= 4 (quick) / <= 5 and <= 6 on a core alphabet (thorough) over the YAML indicator alphabet, plus seeded token soups, line soups, mutated test-suite documents and scaling families, each parsed 14 ways (6 input back-ends, peek/next, load followed by further pulls, 4 loaders) behind a call-counting Input wrapper; no panic, no abort, calls <= 64*(chars+1)+64. Inputs include NUL and other special characters, tabs for blanks, CR / CRLF versions and documents nested 200..600 levels deep.',
         'Linear bound is a calibrated constant; absence of panics beyond the explored scopes is not established; rustc/std, proptest trusted.', '5 C01'),
 'C02': ('bounded-exhaustive enumeration + proptest generators against an independent pushdown recogniser of the event grammar',
         'Same input spaces as C01; the event streams of the iterator, of the iterator with a peek before every next, of load(multi=true) and of repeated load(multi=false) on two back-ends must be a prefix (or, without error, a whole sentence) of the YAML event grammar with the anchor/alias id rules.',
         'Grammar only; the recogniser (harness/src/oracle/grammar.rs) is trusted.', '5 C02'),
 'C03': ('model-based generation: abstract node trees rendered by an independent spec-derived renderer under generated layout choices; expected events are a function of the tree; plus the test-suite corpus with layout-preserving metamorphic variants',
         '6*10^5 (quick) / 3*10^6 (thorough) rendered streams covering every construct and layout choice the property lists, incl. tabs after document markers and line breaks between properties and content in flow collections (class histogram in the evidence), compared event by event (kind, text, style, anchor link, tag, explicit start) on two back-ends; 308 non-error suite cases x 4 variants against their tree: expectation.',
         'The renderer (harness/src/model.rs, written from the YAML 1.2.2 productions) is trusted to emit only well-formed streams; simple scalar mode here, tricky scalars are C04 / C05.', '5 C03'),
 'C04': ('model-based generation of presentation programs (atoms + separators) whose YAML text and denoted value are both read off the program; contexts x back-ends; plus an exhaustive escape / two-atom scope',
         '8*10^5 (quick) / 4*10^6 (thorough) programs over plain / single / double style with every escape form, doubled quotes, interior blanks, folds of 1..3 breaks with blank and tab padding, escaped breaks, indicator and non-ASCII characters, in 10 syntactic contexts (block and root contexts also with the scalar as the last thing of the input) on StrInput, BufferedInput and TestInput<8>, multi-line programs also with CR LF and lone CR breaks; the whole event list (value, style) is asserted.',
         'The sanitiser keeps programs inside the style productions by construction; texts are those expressible in the chosen style.', '5 C04'),
 'C05': ('model-based generation of block scalar cases with a value function written from YAML 1.2.2 8.1; bounded-exhaustive line lists + proptest cases; contexts x back-ends',
         'Every line list of <= 4 (quick) / <= 5 (thorough) lines over 6 line shapes x style x chomping x 4 contexts x 4 end shapes exhaustively, plus 4*10^5 / 2*10^6 generated cases (30 line texts, empty lines with spaces, explicit indicators, header comments, content indentation up to n+12, parents at indentation 14 and 126, sibling or three end-of-input shapes) on StrInput, BufferedInput, TestInput<8>, TestInput<128>, and again with CR LF breaks, lone CR breaks and a tab after each document marker; the whole event list is asserted.',
         'I10 (no document-marker lines at indentation 0), I17 (keep with an unterminated blank last line is not value-asserted), no explicit indicator on top-level scalars.', '5 C05'),
 'C06': ('fault injection: one grammar-derived damage operator applied at a renderer-recorded site of a generated well-formed stream; oracle = the parser must return an error',
         '6*10^5 (quick) / 4.5*10^6 (thorough) damaged streams over 15 damage operators (each the listed kind of ill-formedness, constructed so the result is ill-formed whatever the surroundings), operator chosen among those applicable to the stream; plus the 94 error cases of the test suite; StrInput and BufferedInput.',
         'The undamaged stream must be accepted (differential precondition, C03 judges it); two accepted sub-classes are open known findings, each keyed on its cause (F15: a plain scalar scanned inside the flow collection before the offending line; F25: tab at column 0 under a parent at indentation <= 0).', '5 C06'),
 'C07': ('model-based: independent reference loader (fold of the event list) compared with the four loaders over bounded-exhaustive and proptest inputs',
         'Every accepted input of the text spaces (and rendered documents) is folded from its push-interface events by a reference loader and compared document by document with Yaml, YamlOwned, MarkedYaml and MarkedYamlOwned loads; load fails iff the parser fails, same error.',
         'Untagged non-plain scalars are strings by rule; plain and tagged scalars are resolved by the library resolver inside the reference fold (the resolver itself is C08); duplicated key position first-or-last (I3).', '5 C07'),
 'C08': ('bounded-exhaustive enumeration over the literal alphabet + proptest templates against a hand-written core-schema matcher (must/may outcomes)',
         'Every string of length <= 4 (quick) / <= 5 (thorough) over the 36 characters that occur in core-schema literals x 16 (style, tag) pairs through the resolver API, every string of length <= 3 / <= 4 x 12 pairs through load_from_str of a rendered document, plus boundary-number and word templates; borrowed vs owned resolvers compared.',
         'f64::from_str is trusted for the value of an accepted float literal; "within 64 bits" read as fits-i64 (I2).', '5 C08'),
 'C09': ('round-trip oracle (load . emit = id, emit . load . emit = emit) over bounded-exhaustive strings in four positions and proptest prop_recursive value trees',
         'Every string of length <= 3 (quick) / <= 4 (thorough) over a 30-symbol alphabet as root, sequence item, mapping key and mapping value under the 4 emitter settings, plus 4*10^5 / 2*10^6 generated value trees (boundary numbers, special floats, Unicode and control characters, >1024-char keys, collection keys, depth <= 5), plus single- and multi-line strings under 0..24 wrapping collections.',
         'Domain excludes BadValue / Alias / Representation nodes (I9); equality is the library == plus variant equality.', '5 C09'),
 'C10': ('differential testing across six Input back-ends over bounded-exhaustive and proptest-generated inputs',
         'C01 spaces + exhaustive scope with CR / multi-byte characters + block scalars under indentation 0..140: (event, span) lists and first error identical on StrInput, BufferedInput and TestInput<8,16,64,128>.',
         'TestInput replicates BufferedInput semantics with another capacity (>= 8); differential only (paired with the model-based checks).', '5 C10'),
 'C11': ('generated nesting scenarios (shape x API x depth) each executed in its own child process with an 8 MiB stack; exit status is the oracle',
         '2 build profiles (optimised harness build, unoptimised /verif/nestchild) x 9 nesting shapes + random opener mixes x 8 APIs (iterator, Parser::load, load_from_str + forget / drop, MarkedYamlOwned + drop, built tree + drop, built tree + emit with default settings and with multiline_strings) x depths 1..10^5 (quick) / 3*10^5 (thorough); a child killed by a signal is a violation (smallest crashing depth bisected), a child that panics or does not finish within 120 s too.',
         'Quadratic scenarios are depth-capped (stated in the rule); the 8 MiB stack is the Linux main-thread default.', '5 C11'),
 'C12': ('bounded-exhaustive + proptest inputs against an independent line/column counter and source-lexing span oracles',
         'Every span endpoint and error marker is recomputed from the input characters (LF, CR, CRLF); nesting/order invariants; one-line plain and quoted scalar extents; Display format; MarkedYaml(Owned) node spans vs creating events, for eagerly loaded documents and for documents loaded with deferred resolution and then resolved.',
         'Synthesised null scalars and positions at end of input are exempt as stated in DESIGN.md §7 I5/I6; block scalar extent not asserted.', '5 C12'),
 'C13': ('generated JSON values x choice-stream-driven serialiser (whitespace, escapes) compared with the generating value',
         '6*10^5 (quick) / 4*10^6 (thorough) JSON values (hostile strings as keys and values, boundary numbers, depth <= 8, chains to depth 200) serialised compact, pretty or with random space/tab/LF/CRLF runs around every token; load_from_str, load_from_parser over the string-slice back-end and the deferred loading mode must each return the generating value.',
         'The generator and serialiser are the JSON reference; numbers compared by exact value (I8).', '5 C13'),
 'C14': ('metamorphic relation (LF -> CRLF / CR) over bounded-exhaustive and proptest inputs',
         'Every CR-free generated input is re-parsed with CRLF and with lone CR: same events, scalar values, line/col, outcome and error text.',
         'Differential against the implementation itself by design; error index not compared (I14).', '5 C14'),
 'C15': ('metamorphic relation over generated stream histories: parse(A1 ... Ak joined by document-end markers) = concatenation of parse(Ai) with anchor ids renumbered',
         '4*10^5 (quick) / 2*10^6 (thorough) histories of 2..4 parts drawn from model-rendered streams, the valid test-suite corpus, hand-picked state-stressing parts (all ordered pairs exhaustively), repetition parts (one counted feature 70 / 130 / 300 times; all ordered pairs exhaustively) and soups; pull and push events on two back-ends and loaded documents must be the concatenation of the parts.',
         'Differential against the parser on the parts; paired with C03 which judges the parts against the model.', '5 C15'),
 'C16': ('generated directive / tag scenarios against an independent tag resolver (handle table per document, percent-decoding as UTF-8)',
         '4*10^5 (quick) / 2*10^6 (thorough) scenarios: 1..3 documents x 0..3 %TAG lines (5 handles x 5 prefixes) x %YAML position x reserved directive x every tag spelling on scalars, empty nodes, block and flow collections x keep_tags; expected either an error (duplicate / undeclared handle) or the exact handle+suffix of every node.',
         'Resolver written from the property statement; escapes only in suffixes; with keep_tags later documents do not re-declare earlier handles (I7).', '5 C16'),
 'C17': ('model-based call-history testing (peek/next interpreter) with exhaustive histories on small streams + differential pull vs push',
         'Cursor model over the plain-iteration event list; all 3^n peek histories for streams <= 8 events and all <= 3-position histories for 9..12 events on small inputs and the corpus, sampled histories elsewhere; load(multi) and repeated load(single) must replay the same (event, span, error) story, with keep_tags off and (for inputs with directives) on.',
         'Histories stop at the first error (I4).', '5 C17'),
 'C18': ('round-trip differential (std encoders -> YamlDecoder vs load_from_str) on generated texts + bounded-exhaustive byte strings x trap modes, termination observed by a process watchdog',
         'Texts (ASCII/Latin/CJK/astral, up to ~4k chars) x 6 encodings x 6 trap modes must decode to the documents of load_from_str; every byte string of length <= 5 (quick) / <= 6 (thorough) over 10 byte values x 6 trap modes plus random / truncated / bit-flipped encodings must return, with strict => decode error on malformed input, lenient traps continuing, callbacks honoured.',
         'std UTF-8 / UTF-16 validation defines malformedness; a hang is reported only after the culprit case alone fails to finish within the limit.', '5 C18'),
 'C19': ('differential testing across the four node types and eager vs deferred resolution, plus span-mutation metamorphic checks, over bounded-exhaustive and proptest inputs',
         'For every accepted input: the four load_from_str results agree structurally; MarkedYaml(Owned) ==/Hash/map-lookup are invariant under replacing every span and under shifting the document by a comment line; early_parse(false) + parse_representation_recursive equals the eager load on all four types with the documented return value; resolving resolved trees is the identity.',
         'Differential by design, paired with C07 (reference loader) and C08 (resolver oracle).', '5 C19'),
 'C20': ('model-based testing of six lookup paths against a reference predicate on generated mappings, plus eq => hash-eq over generated respelling pairs',
         'Generated mappings with string, numeric, null, boolean, collection, unresolved and BadValue keys in five node spellings (Yaml with borrowed Cow whose strings are slices of shared buffers / owned Cow, YamlOwned, MarkedYaml, MarkedYamlOwned): as_mapping_get, contains_mapping_key, Index (panic iff absent), as_mapping_get_mut, IndexMut and explicit get agree with found(k) = some key is a resolved string equal to k; usize indexing vs get; equal nodes hash equally and find each other in a map.',
         'Model predicate written from the property statement; panics observed with catch_unwind.', '5 C20'),
}
def main():
    checks = []
    for pid in ALL:
        if pid not in CHECKS: continue
        tech, text, note, ref = CHECKS[pid]
        checks.append({
            'property_id': pid,
            'quick_cmd': 'bin/check %s quick' % pid,
            'thorough_cmd': 'bin/check %s thorough' % pid,
            'evidence_file': '/verif/evidence/%s.json' % pid,
            'replay_cmd_template': 'harness/target/release/verif replay {path}',
            'engine': 'verif-harness',
            'level_claimed': {'category': 'exploration', 'text': text, 'design_ref': 'DESIGN.md §' + ref},
            'level_note': note,
            'technique': tech,
        })
    na = [{'property_id': p, 'reason': 'not claimed'} for p in ALL if p not in CHECKS]
    m = {
        'version': 1,
        'setup_cmd': 'cd /verif/harness && CARGO_NET_OFFLINE=true cargo build --release --offline',
        'hooks': {'guard': 'saphyr_verif', 'enable': 'none needed: every observation goes through public API (DESIGN.md §2.2); no hook commits exist',
                  'baseline_off_cmd': 'cd /repo && cargo test --workspace --no-fail-fast --offline', 'source_commits': [], 'add_only': True},
        'engines': [{'name': 'verif-harness', 'path': '/verif/harness', 'serves_properties': sorted(CHECKS),
                     'kind_free_text': 'Rust binary: proptest 1.11 TestRunner streams + bounded exhaustive enumerators + child-process scenarios; 16 worker processes; known_findings.json filter; replay files; cargo-fuzz / libFuzzer target (fuzz/) for the thorough tier'}],
        'checks': checks,
        'not_applicable': na,
        'notes': 'bin/check <ID> <tier> rebuilds the harness against /repo (path dependencies) and runs the property; the thorough tier adds a coverage-guided libFuzzer campaign (fuzz/, one target, the property oracle inside the target, 16 jobs) for every property except C11, whose oracle is a child process exit status. Exit 2 = inconclusive (build failure / watchdog / a fuzz campaign in which no job completed), never a violation.',
    }
    json.dump(m, open(os.path.join(ROOT, 'MANIFEST.json'), 'w'), indent=1)
    print('wrote MANIFEST.json with', len(checks), 'checks')
main()
