#!/usr/bin/env python3
"""Writes /verif/MANIFEST.json from the table below (kept here so the manifest stays valid)."""
import json, os
ROOT = os.path.dirname(os.path.dirname(os.path.abspath(__file__)))
ALL = ['C%02d' % i for i in range(1, 21)]
CHECKS = {
 # id: (technique, level text, level note, design ref)
 'C01': ('bounded-exhaustive enumeration + proptest generators + call-counting work-bound oracle, process-level abort/hang observation',
         'Every string of length <= 4 (quick) / <= 5 and <= 6 on a core alphabet (thorough) over the YAML indicator alphabet, plus seeded token soups, line soups, mutated test-suite documents and scaling families, each parsed 14 ways (6 input back-ends, peek/next, load, 4 loaders) behind a call-counting Input wrapper; no panic, no abort, calls <= 64*(chars+1)+64.',
         'Linear bound is a calibrated constant; absence of panics beyond the explored scopes is not established; rustc/std, proptest trusted.', '5 C01'),
 'C02': ('bounded-exhaustive enumeration + proptest generators against an independent pushdown recogniser of the event grammar',
         'Same input spaces as C01; pull and push event streams on two back-ends must be a prefix (or, without error, a whole sentence) of the YAML event grammar with the anchor/alias id rules.',
         'Grammar only; the recogniser (harness/src/oracle/grammar.rs) is trusted.', '5 C02'),
}
def main():
    checks = []
    for pid in ALL:
        if pid not in CHECKS: continue
        tech, text, note, ref = CHECKS[pid]
        checks.append({
            'property_id': pid,
            'quick_cmd': 'bin/check %s quick' % pid,
            'thorough_cmd': 'bin/check %s thorough' % pid,
            'evidence_file': '/verif/evidence/%s.json' % pid,
            'replay_cmd_template': 'harness/target/release/verif replay {path}',
            'engine': 'verif-harness',
            'level_claimed': {'category': 'exploration', 'text': text, 'design_ref': 'DESIGN.md §' + ref},
            'level_note': note,
            'technique': tech,
        })
    na = [{'property_id': p, 'reason': 'check not built yet in this round (planned, see DESIGN.md §5); the technique applies'} for p in ALL if p not in CHECKS]
    m = {
        'version': 1,
        'setup_cmd': 'cd /verif/harness && CARGO_NET_OFFLINE=true cargo build --release --offline',
        'hooks': {'guard': 'saphyr_verif', 'enable': 'none needed: every observation goes through public API (DESIGN.md §2.2); no hook commits exist',
                  'baseline_off_cmd': 'cd /repo && cargo test --workspace --no-fail-fast --offline', 'source_commits': [], 'add_only': True},
        'engines': [{'name': 'verif-harness', 'path': '/verif/harness', 'serves_properties': sorted(CHECKS),
                     'kind_free_text': 'Rust binary: proptest 1.11 TestRunner streams + bounded exhaustive enumerators + child-process scenarios; 16 worker processes; known_findings.json filter; replay files'}],
        'checks': checks,
        'not_applicable': na,
        'notes': 'bin/check <ID> <tier> rebuilds the harness against /repo (path dependencies) and runs the property. Exit 2 = inconclusive (build failure / watchdog), never a violation.',
    }
    json.dump(m, open(os.path.join(ROOT, 'MANIFEST.json'), 'w'), indent=1)
    print('wrote MANIFEST.json with', len(checks), 'checks')
main()
