#!/usr/bin/env python3
"""Runs every quick check against every kept seeded change (one at a time, in /repo, reverted
afterwards) and records the outcome in each meta.json and in seeded/MATRIX.md."""
import json, os, re, subprocess, glob
rows = {}
for d in sorted(glob.glob('/verif/seeded/C*-m*')):
    meta = json.load(open(f'{d}/meta.json'))
    # usage: bin/matrix.py [suffixes]  — changes whose id ends with one of the comma-separated suffixes
    # (e.g. m7,m8) are run against every check; with suffixes given, all other changes are re-run
    # against their target check only and keep their earlier record for the other checks
    import sys
    full = len(sys.argv) < 2 or any(meta['id'].endswith(x) for x in sys.argv[1].split(','))
    ids = [] if full else [meta['breaks_property']]
    out = subprocess.run(['/verif/bin/try_mutant.sh', f'{d}/patch.diff'] + ids, capture_output=True, text=True).stdout
    det = meta.get('detection', {})
    for l in out.splitlines():
        m = re.match(r'(C\d+) exit=(\d+) violations=(\d+)\s*(.*)', l)
        if m: det[m.group(1)] = {'exit': int(m.group(2)), 'violations': int(m.group(3)), 'categories': m.group(4).strip()}
    meta['detection'] = det
    # what the change needs in order to manifest: the README section that says so
    readme = open(f'{d}/README.md').read().splitlines()
    needs = []
    for i, l in enumerate(readme):
        if l.startswith('#') and re.search(r'need|manifest|trigger|narrow', l, re.I):
            for k in readme[i + 1:]:
                if k.startswith('#'): break
                if k.strip(): needs.append(k.strip())
            break
    if not needs:
        needs = [l.strip() for l in readme if re.search(r'\bneed|only when|only if|requires', l, re.I)][:6]
    text = ' '.join(needs)
    meta['needs_to_manifest'] = text[:900] + ('…' if len(text) > 900 else '')
    meta['caught_by'] = sorted(k for k, v in det.items() if v['exit'] == 1)
    meta['caught_by_target_check'] = meta['breaks_property'] in meta['caught_by']
    json.dump(meta, open(f'{d}/meta.json', 'w'), indent=1)
    rows[meta['id']] = meta
    print(meta['id'], meta['caught_by'], flush=True)
with open('/verif/seeded/MATRIX.md', 'w') as f:
    f.write('| seeded change | target | caught by target check | all checks that report a violation |\n|---|---|---|---|\n')
    for k, m in rows.items():
        f.write(f"| {k} | {m['breaks_property']} | {'yes' if m['caught_by_target_check'] else 'NO'} | {' '.join(m['caught_by'])} |\n")
