#!/usr/bin/env python3-vt
"""Validate MANIFEST.json and every evidence file against the schemas in /root/.vp."""
import json, glob, sys, jsonschema
ok = True
def v(path, schema):
    global ok
    try:
        jsonschema.validate(json.load(open(path)), json.load(open(schema)))
    except Exception as e:
        ok = False
        print('INVALID', path, str(e)[:300])
v('/verif/MANIFEST.json', '/root/.vp/MANIFEST.schema.json')
for f in sorted(glob.glob('/verif/evidence/*.json')):
    v(f, '/root/.vp/EVIDENCE.schema.json')
print('all valid' if ok else 'FAILED')
sys.exit(0 if ok else 1)
