#!/usr/bin/env python3
"""Rewrites the table of seeded changes in DESIGN.md §11 (between the SEEDED_TABLE markers) from
seeded/*/meta.json as left by bin/matrix.py."""
import glob, json, re
rows = []
for d in sorted(glob.glob('/verif/seeded/C*-m*')):
    m = json.load(open(f'{d}/meta.json'))
    title = open(f'{d}/README.md').readline().strip().lstrip('#').strip()
    for sep in (' — ', ' -- ', ' – ', ': '):
        if sep in title:
            title = title.split(sep, 1)[1].strip()
            break
    title = title.replace('|', '/')
    if len(title) > 110: title = title[:107] + '…'
    caught = m.get('caught_by') or sorted(k for k, v in m.get('detection', {}).items() if v.get('exit') == 1)
    tgt = m['breaks_property']
    others = [c for c in caught if c != tgt]
    rows.append(f"| {m['id']} | {title} | {'**yes**' if tgt in caught else 'no'} | {' '.join(others) or '—'} |")
n = len(rows); hit = sum('**yes**' in r for r in rows)
table = ('<!-- SEEDED_TABLE_BEGIN -->\n'
         f'Detection by the quick tier of the checks as committed ({hit} of {n} caught by the check of the property they target; '
         'the others are explained below the table):\n\n'
         '| change | what it does | target check reports it | other checks that report it |\n|---|---|---|---|\n' + '\n'.join(rows) +
         '\n<!-- SEEDED_TABLE_END -->')
s = open('/verif/DESIGN.md').read()
if 'SEEDED_TABLE_PLACEHOLDER' in s:
    s = s.replace('SEEDED_TABLE_PLACEHOLDER', table)
else:
    s = re.sub(r'<!-- SEEDED_TABLE_BEGIN -->.*?<!-- SEEDED_TABLE_END -->', lambda _: table, s, flags=re.S)
open('/verif/DESIGN.md', 'w').write(s)
print(f'{hit}/{n}')
