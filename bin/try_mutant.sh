#!/bin/sh
# usage: bin/try_mutant.sh <patch.diff> <ID>...   (IDs default to all 20)
# Applies a seeded change to /repo, runs the quick checks, reverts. Prints one line per check.
PATCH="$1"; shift
ROOT="$(cd "$(dirname "$0")/.." && pwd)"
[ -n "$(git -C /repo status --porcelain)" ] && { echo "/repo is not clean" >&2; exit 3; }
git -C /repo apply --check "$PATCH" || { echo "patch does not apply" >&2; exit 3; }
git -C /repo apply "$PATCH"
IDS="$*"; [ -z "$IDS" ] && IDS="$($ROOT/harness/target/release/verif list)"
for id in $IDS; do
  OUT=$("$ROOT/bin/check" "$id" quick 2>/tmp/try_mutant.err); RC=$?
  V=$(echo "$OUT" | grep -c '^VIOLATION')
  CAT=$(grep -o '^  \[[^]]*\]' /tmp/try_mutant.err | sort | uniq -c | sort -rn | head -3 | tr '\n' ' ')
  echo "$id exit=$RC violations=$V $CAT"
done
git -C /repo checkout -- .
