//! `nestchild nest <shape> <api> <depth> <wordhex>` — same command line as `verif nest`.
#[path = "../../harness/src/nest_scenario.rs"]
mod nest_scenario;

fn main() {
    let args: Vec<String> = std::env::args().collect();
    if args.len() < 5 || args[1] != "nest" {
        eprintln!("usage: nestchild nest <shape> <api> <depth> [wordhex]");
        std::process::exit(2);
    }
    std::process::exit(nest_scenario::child_main(&args));
}
