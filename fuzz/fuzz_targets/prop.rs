//! One libFuzzer target for all properties: VERIF_FUZZ_PROP selects the property; the bytes are
//! decoded into one case (text, or a structured case through proptest's pass-through RNG) and the
//! property's own oracle decides. A violation aborts, so libFuzzer saves the input.
#![no_main]

use libfuzzer_sys::fuzz_target;
use std::cell::RefCell;
use verif::engine::{install_quiet_panic_hook, Ctx, Known, Tier};

thread_local! {
    static STATE: RefCell<Option<(&'static str, Ctx)>> = const { RefCell::new(None) };
}

fuzz_target!(|data: &[u8]| {
    STATE.with(|st| {
        let mut st = st.borrow_mut();
        if st.is_none() {
            // panics inside the library are caught per case by the harness (and are violations
            // where the property covers them); replace libFuzzer's abort-on-panic hook
            install_quiet_panic_hook();
            let id = std::env::var("VERIF_FUZZ_PROP").unwrap_or_else(|_| "C02".into());
            let prop = verif::props::get(&id).expect("unknown property").id();
            let root = verif::gen::root();
            *st = Some((prop, Ctx::new(prop, Tier::Thorough, 0, "fuzz", 0, Known::load(&root))));
        }
        let (id, ctx) = st.as_mut().unwrap();
        if let Some(Err(f)) = verif::fuzz::fuzz_one(id, ctx, data) {
            eprintln!("VERIF-FUZZ-VIOLATION property={id} [{}] {}", f.category, f.detail.chars().take(600).collect::<String>());
            std::process::abort();
        }
    });
});
