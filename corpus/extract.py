#!/usr/bin/env python3
"""One-time extraction of the yaml-test-suite (as vendored in /repo/parser/tests/yaml-test-suite/src)
into corpus/suite.json = [{id, name, yaml, tree, json?, fail}].  Mirrors the upstream harness
(/repo/parser/tests/yaml-test-suite.rs): every field except `fail` is inherited from the previous
sub-test, sub-tests carrying `skip` are dropped, visual markers are translated the same way.
Needs the system python3 (PyYAML); the output is committed so checks never run this."""
import yaml, json, glob, os
SRC = '/repo/parser/tests/yaml-test-suite/src'
def vis(s):
    for a, b in (('␣', ' '), ('»', '\t'), ('—', ''), ('←', '\r'), ('⇔', '﻿'), ('↵', ''), ('∎\n', '')):
        s = s.replace(a, b)
    return s
out = []
for f in sorted(glob.glob(SRC + '/*.yaml')):
    base = os.path.basename(f)[:-5]
    tests = yaml.safe_load(open(f, encoding='utf-8'))
    cur = {}
    for i, t in enumerate(tests):
        cur.pop('fail', None)
        cur.update(t)
        if 'skip' in cur:
            continue
        e = {'id': base if len(tests) == 1 else '%s-%02d' % (base, i), 'name': cur.get('name', ''),
             'yaml': vis(cur['yaml']), 'tree': vis(cur['tree']), 'fail': cur.get('fail') is True}
        if 'json' in cur and not e['fail']:
            e['json'] = cur['json']
        out.append(e)
json.dump(out, open('/verif/corpus/suite.json', 'w'), ensure_ascii=False, indent=0)
print(len(out), sum(1 for e in out if e['fail']))
